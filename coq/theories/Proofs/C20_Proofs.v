(* Proofs/C20_Proofs.v — simplex utilities: Aitchison transforms on positive real vectors,
   exact rational utilities, and the simplex grid. *)
From Verif Require Import Info.
From Verif Require Import C20_Model.
From Coq Require Import Lra Lia Permutation.
Open Scope R_scope.

(* ================================================================================================ *)
(* Part A — real-valued Aitchison transforms                                                         *)
(* ================================================================================================ *)

Definition posv (x : list R) := Forall (fun v => 0 < v) x.
Definition rclosure (x : list R) : list R := map (fun v => v / rsum x) x.
Definition rclr (x : list R) : list R :=
  let m := rsum (map log2 x) / INR (length x) in map (fun v => log2 v - m) x.
Definition rexp2 (y : R) : R := exp (y * ln 2).
Definition rclr_inv (y : list R) : list R := rclosure (map rexp2 y).
Definition ralr (x : list R) : list R := map (fun v => log2 v - log2 (last x 1)) (removelast x).
Definition ralr_inv (y : list R) : list R := rclosure (map rexp2 y ++ [1]).
Fixpoint map2 {A B C : Type} (f : A -> B -> C) (a : list A) (b : list B) : list C :=
  match a, b with
  | x :: a', y :: b' => f x y :: map2 f a' b'
  | _, _ => []
  end.

(* ---- sums ---- *)
Lemma rsum_map_scale (c : R) (x : list R) : rsum (map (fun v => v * c) x) = rsum x * c.
Proof. induction x as [|a t IH]; simpl; [lra| rewrite IH; lra]. Qed.

Lemma rsum_map_div (s : R) (x : list R) : rsum (map (fun v => v / s) x) = rsum x / s.
Proof. unfold Rdiv. apply rsum_map_scale. Qed.

Lemma rsum_map_sub (f : R -> R) (m : R) (x : list R) :
  rsum (map (fun v => f v - m) x) = rsum (map f x) - INR (length x) * m.
Proof.
  induction x as [|a t IH]; [simpl; lra|].
  change (length (a :: t)) with (S (length t)). rewrite S_INR. simpl. rewrite IH. lra.
Qed.

Lemma posv_rsum_nonneg (x : list R) : posv x -> 0 <= rsum x.
Proof. induction 1 as [|a t Ha Ht IH]; simpl; lra. Qed.

Lemma posv_rsum_pos (x : list R) : posv x -> x <> [] -> 0 < rsum x.
Proof.
  intros Hp Hne. destruct x as [|a t]; [congruence|].
  inversion Hp as [|a' t' Ha Ht]; subst. simpl.
  pose proof (posv_rsum_nonneg t Ht) as Hnn. lra.
Qed.

(* ---- 1. closure ---- *)
Lemma rclosure_sum_gen (x : list R) : rsum x <> 0 -> rsum (rclosure x) = 1.
Proof. intros Hs. unfold rclosure. rewrite rsum_map_div. field. exact Hs. Qed.

Theorem rclosure_sum (x : list R) : posv x -> x <> [] -> rsum (rclosure x) = 1.
Proof.
  intros Hp Hne. apply rclosure_sum_gen.
  pose proof (posv_rsum_pos x Hp Hne) as Hpos. lra.
Qed.

Theorem rclosure_pos (x : list R) : posv x -> posv (rclosure x).
Proof.
  intros Hp. destruct x as [|a t]; [constructor|].
  assert (Hs : 0 < rsum (a :: t)) by (apply posv_rsum_pos; [exact Hp| discriminate]).
  unfold rclosure. generalize dependent (rsum (a :: t)). intros s Hs.
  unfold posv in *. rewrite Forall_forall in *. intros v Hv.
  apply in_map_iff in Hv as [w [Hw Hin]]. subst v.
  apply Rdiv_lt_0_compat; [apply Hp; exact Hin| exact Hs].
Qed.

Theorem rclosure_idem (x : list R) : rsum x = 1 -> rclosure x = x.
Proof.
  intros Hs. unfold rclosure. rewrite Hs.
  rewrite <- (map_id x) at 2. apply map_ext. intros v. field.
Qed.

Lemma rclosure_length (x : list R) : length (rclosure x) = length x.
Proof. unfold rclosure. apply map_length. Qed.

Lemma rclosure_scale (c : R) (x : list R) :
  c <> 0 -> rsum x <> 0 -> rclosure (map (fun v => v * c) x) = rclosure x.
Proof.
  intros Hc Hs. unfold rclosure. rewrite rsum_map_scale, map_map.
  apply map_ext. intros v. field. split; assumption.
Qed.

(* ---- exp2 / log2 ---- *)
Lemma rexp2_pos (y : R) : 0 < rexp2 y.
Proof. unfold rexp2. apply exp_pos. Qed.

Lemma rexp2_log2_sub (v m : R) : 0 < v -> rexp2 (log2 v - m) = v * rexp2 (- m).
Proof.
  intros Hv. unfold rexp2, log2.
  replace ((ln v / ln 2 - m) * ln 2) with (ln v + - m * ln 2)
    by (field; pose proof ln2_pos; lra).
  rewrite exp_plus, exp_ln by exact Hv. reflexivity.
Qed.

Lemma rexp2_log2 (v : R) : 0 < v -> rexp2 (log2 v) = v.
Proof.
  intros Hv. unfold rexp2, log2.
  replace (ln v / ln 2 * ln 2) with (ln v) by (field; pose proof ln2_pos; lra).
  apply exp_ln. exact Hv.
Qed.

Lemma map_ext_posv (f g : R -> R) (x : list R) :
  posv x -> (forall v, 0 < v -> f v = g v) -> map f x = map g x.
Proof.
  intros Hp Hfg. apply map_ext_in. intros v Hv.
  apply Hfg. unfold posv in Hp. rewrite Forall_forall in Hp. apply Hp. exact Hv.
Qed.

(* ---- 2. clr round trip ---- *)
Theorem clr_inv_clr (x : list R) : posv x -> x <> [] -> rclr_inv (rclr x) = rclosure x.
Proof.
  intros Hp Hne. unfold rclr_inv, rclr. cbv zeta.
  set (m := rsum (map log2 x) / INR (length x)).
  rewrite map_map.
  rewrite (map_ext_posv (fun v => rexp2 (log2 v - m)) (fun v => v * rexp2 (- m)) x Hp)
    by (intros v Hv; apply rexp2_log2_sub; exact Hv).
  apply rclosure_scale.
  - pose proof (rexp2_pos (- m)). lra.
  - pose proof (posv_rsum_pos x Hp Hne). lra.
Qed.

(* ---- 3. alr round trip ---- *)
Lemma posv_last (x : list R) : posv x -> 0 < last x 1.
Proof.
  induction 1 as [|a t Ha Ht IH]; [simpl; lra|].
  destruct t as [|b t']; [simpl; exact Ha| exact IH].
Qed.

Lemma posv_app_l (x y : list R) : posv (x ++ y) -> posv x.
Proof. unfold posv. rewrite Forall_app. tauto. Qed.

Theorem alr_inv_alr (x : list R) : posv x -> x <> [] -> ralr_inv (ralr x) = rclosure x.
Proof.
  intros Hp Hne. unfold ralr_inv, ralr.
  pose proof (posv_last x Hp) as Hl.
  pose proof (app_removelast_last 1 Hne) as Hx.
  set (c := rexp2 (- log2 (last x 1))).
  assert (Hc : 0 < c) by apply rexp2_pos.
  assert (Hone : 1 = last x 1 * c).
  { unfold c. rewrite <- rexp2_log2_sub by exact Hl.
    replace (log2 (last x 1) - log2 (last x 1)) with 0 by lra.
    unfold rexp2. rewrite Rmult_0_l, exp_0. reflexivity. }
  assert (Hpr : posv (removelast x)) by (rewrite Hx in Hp; apply posv_app_l in Hp; exact Hp).
  rewrite map_map.
  rewrite (map_ext_posv (fun v => rexp2 (log2 v - log2 (last x 1))) (fun v => v * c) _ Hpr)
    by (intros v Hv; apply rexp2_log2_sub; exact Hv).
  rewrite Hone at 1.
  change [last x 1 * c] with (map (fun v => v * c) [last x 1]).
  rewrite <- map_app, <- Hx.
  apply rclosure_scale; [lra|].
  pose proof (posv_rsum_pos x Hp Hne). lra.
Qed.

(* ---- 4. clr lands in the hyperplane ---- *)
Theorem rclr_sum_zero (x : list R) : posv x -> x <> [] -> rsum (rclr x) = 0.
Proof.
  intros _ Hne. unfold rclr. cbv zeta. rewrite rsum_map_sub.
  assert (Hn : INR (length x) <> 0).
  { apply not_0_INR. destruct x; [congruence| simpl; discriminate]. }
  field. exact Hn.
Qed.

(* ---- 5. perturbation and power ---- *)
Lemma map2_posv (x dx : list R) : posv x -> posv dx -> posv (map2 Rmult x dx).
Proof.
  intros Hx. revert dx. induction Hx as [|a t Ha Ht IH]; intros dx Hd; [constructor|].
  destruct Hd as [|b u Hb Hu]; [constructor|]. simpl. constructor.
  - apply Rmult_lt_0_compat; assumption.
  - apply IH. exact Hu.
Qed.

Lemma map2_length {A B C} (f : A -> B -> C) (a : list A) (b : list B) :
  length a = length b -> length (map2 f a b) = length a.
Proof.
  revert b. induction a as [|x a IH]; intros [|y b] H; simpl in *; try congruence.
  f_equal. apply IH. congruence.
Qed.

Lemma map2_combine {A B C} (f : A -> B -> C) (a : list A) (b : list B) :
  map2 f a b = map (fun ab => f (fst ab) (snd ab)) (combine a b).
Proof. revert b. induction a as [|x a IH]; intros [|y b]; simpl; try reflexivity. f_equal. apply IH. Qed.

Theorem perturbation_simplex (x dx : list R) :
  posv x -> posv dx -> length x = length dx -> x <> [] ->
  rsum (rclosure (map2 Rmult x dx)) = 1 /\ posv (rclosure (map2 Rmult x dx)).
Proof.
  intros Hx Hd Hlen Hne.
  pose proof (map2_posv x dx Hx Hd) as Hp. split.
  - apply rclosure_sum; [exact Hp|].
    intros Hnil. apply (f_equal (@length R)) in Hnil.
    rewrite map2_length in Hnil by exact Hlen. destruct x; [congruence| discriminate].
  - apply rclosure_pos. exact Hp.
Qed.

Lemma Rpower_posv (a : R) (x : list R) : posv (map (fun v => Rpower v a) x).
Proof.
  unfold posv. rewrite Forall_forall. intros v Hv.
  apply in_map_iff in Hv as [w [Hw _]]. subst v. unfold Rpower. apply exp_pos.
Qed.

Theorem power_simplex (x : list R) (a : R) :
  x <> [] ->
  rsum (rclosure (map (fun v => Rpower v a) x)) = 1 /\ posv (rclosure (map (fun v => Rpower v a) x)).
Proof.
  intros Hne. split.
  - apply rclosure_sum; [apply Rpower_posv|].
    destruct x; [congruence| discriminate].
  - apply rclosure_pos, Rpower_posv.
Qed.

Corollary perturbation_sum (x dx : list R) :
  posv x -> posv dx -> length x = length dx -> x <> [] ->
  rsum (rclosure (map2 Rmult x dx)) = 1.
Proof. intros Hx Hd Hlen Hne. apply perturbation_simplex; assumption. Qed.

Corollary power_sum (x : list R) (a : R) :
  posv x -> x <> [] -> rsum (rclosure (map (fun v => Rpower v a) x)) = 1.
Proof. intros _ Hne. apply power_simplex. exact Hne. Qed.

(* ---- 6. link to the reflected model ---- *)
Lemma rden_r_sum20 (l : list rdata) : rden (r_sum20 l) = rsum (map rden l).
Proof.
  induction l as [|a t IH]; [simpl; unfold Q2R; simpl; lra|].
  destruct t as [|b t']; [simpl; lra|].
  change (r_sum20 (a :: b :: t')) with (RAdd a (r_sum20 (b :: t'))).
  change (rden (RAdd a (r_sum20 (b :: t')))) with (rden a + rden (r_sum20 (b :: t'))).
  rewrite IH. reflexivity.
Qed.

Lemma Q2R_inv_nat (n : nat) : (n <> 0)%nat -> Q2R (1 / inject_Z (Z.of_nat n)) = / INR n.
Proof.
  intros Hn. unfold Qdiv. rewrite Q2R_mult, Q2R_inv.
  - rewrite INR_IZR_INZ. unfold Q2R. simpl. field.
    apply not_0_IZR. lia.
  - unfold Qeq. simpl. lia.
Qed.

Theorem clr_i_rclr (x : list Q) (i : nat) :
  (i < length x)%nat -> rden (clr_i x i) = nth i (rclr (map Q2R x)) 0.
Proof.
  intros Hi. unfold clr_i, rsub, rscale, lg, rclr. cbv zeta.
  set (m := rsum (map log2 (map Q2R x)) / INR (length (map Q2R x))).
  rewrite (nth_indep _ 0 ((fun v => log2 v - m) (Q2R 1%Q)))
    by (rewrite !map_length; exact Hi).
  rewrite (map_nth (fun v => log2 v - m) (map Q2R x) (Q2R 1%Q) i).
  rewrite (map_nth Q2R x 1%Q i).
  simpl rden. rewrite rden_r_sum20, Q2R_inv_nat by lia.
  unfold m. rewrite !map_map, map_length. simpl.
  unfold Rdiv. ring.
Qed.

(* the form asked for in the task (positivity is not needed for the identity) *)
Corollary clr_i_rclr_pos (x : list Q) (i : nat) :
  Forall (fun q => (0 < q)%Q) x -> (i < length x)%nat ->
  rden (clr_i x i) = nth i (rclr (map Q2R x)) 0.
Proof. intros _. apply clr_i_rclr. Qed.

Lemma last_map_Q2R (x : list Q) (d : Q) : last (map Q2R x) (Q2R d) = Q2R (last x d).
Proof.
  induction x as [|a t IH]; [reflexivity|].
  destruct t as [|b t']; [reflexivity|].
  change (last (map Q2R (a :: b :: t')) (Q2R d)) with (last (map Q2R (b :: t')) (Q2R d)).
  rewrite IH. reflexivity.
Qed.

Lemma alr_i_ralr (x : list Q) (i : nat) :
  (S i < length x)%nat -> rden (alr_i x i) = nth i (ralr (map Q2R x)) 0.
Proof.
  intros Hi. unfold alr_i, rsub, lg, ralr.
  set (l := last (map Q2R x) 1).
  assert (Hl : l = Q2R (last x 1%Q)).
  { unfold l. replace 1 with (Q2R 1%Q) by (unfold Q2R; simpl; lra). apply last_map_Q2R. }
  assert (Hrl : removelast (map Q2R x) = map Q2R (removelast x)).
  { clear. induction x as [|a t IH]; [reflexivity|].
    destruct t as [|b t']; [reflexivity|].
    change (removelast (map Q2R (a :: b :: t'))) with (Q2R a :: removelast (map Q2R (b :: t'))).
    rewrite IH. reflexivity. }
  assert (Hlen : length (removelast x) = (length x - 1)%nat).
  { clear. induction x as [|a t IH]; [reflexivity|].
    destruct t as [|b t']; [reflexivity|].
    change (length (removelast (a :: b :: t'))) with (S (length (removelast (b :: t')))).
    rewrite IH. simpl. lia. }
  rewrite Hrl.
  rewrite (nth_indep _ 0 ((fun v => log2 v - log2 l) (Q2R 1%Q)))
    by (rewrite !map_length, Hlen; lia).
  rewrite (map_nth (fun v => log2 v - log2 l) (map Q2R (removelast x)) (Q2R 1%Q) i).
  rewrite (map_nth Q2R (removelast x) 1%Q i).
  simpl rden. rewrite Hl.
  replace (nth i (removelast x) 1%Q) with (nth i x 1%Q); [lra|].
  clear - Hi. revert i Hi. induction x as [|a t IH]; intros i Hi; [simpl in Hi; lia|].
  destruct t as [|b t']; [simpl in Hi; lia|].
  destruct i as [|i]; [reflexivity|].
  change (removelast (a :: b :: t')) with (a :: removelast (b :: t')).
  simpl nth at 1 2. apply IH. simpl in *. lia.
Qed.

(* ================================================================================================ *)
(* Part B — exact rational utilities                                                                 *)
(* ================================================================================================ *)

Lemma qsum_map_ext_in {A} (f g : A -> Q) (l : list A) :
  (forall a, In a l -> (f a == g a)%Q) -> (qsum (map f l) == qsum (map g l))%Q.
Proof.
  induction l as [|a t IH]; intros H; simpl; [reflexivity|].
  rewrite (H a (or_introl eq_refl)), IH; [reflexivity|].
  intros b Hb. apply H. right. exact Hb.
Qed.

Lemma qsum_map_add {A} (f g : A -> Q) (l : list A) :
  (qsum (map (fun a => f a + g a) l) == qsum (map f l) + qsum (map g l))%Q.
Proof. induction l as [|a t IH]; simpl; [Lqa.lra| rewrite IH; Lqa.lra]. Qed.

Lemma qsum_map_scale {A} (f : A -> Q) (c : Q) (l : list A) :
  (qsum (map (fun a => f a * c) l) == qsum (map f l) * c)%Q.
Proof. induction l as [|a t IH]; simpl; [Lqa.lra| rewrite IH; ring]. Qed.

Lemma qsum_map_zero {A} (l : list A) : (qsum (map (fun _ => 0) l) == 0)%Q.
Proof. induction l as [|a t IH]; simpl; [reflexivity| rewrite IH; Lqa.lra]. Qed.

(* ---- 7. replace_zeros ---- *)
Lemma inject_Z_S (n : nat) : (inject_Z (Z.of_nat (S n)) == inject_Z (Z.of_nat n) + 1)%Q.
Proof. rewrite Nat2Z.inj_succ. unfold Z.succ. rewrite inject_Z_plus. reflexivity. Qed.

Lemma replace_zeros_sum_gen (x : list Q) (delta c : Q) :
  (qsum (map (fun q => if Qeq_bool q 0 then delta else q * c) x)
   == inject_Z (Z.of_nat (length (filter (fun q => Qeq_bool q 0) x))) * delta + qsum x * c)%Q.
Proof.
  induction x as [|a t IH]; [simpl; unfold inject_Z; ring|].
  cbn [map filter qsum]. rewrite IH.
  destruct (Qeq_bool a 0) eqn:Ea.
  - apply Qeq_bool_eq in Ea. cbn [length].
    rewrite inject_Z_S, Ea. ring.
  - ring.
Qed.

Theorem replace_zeros_simplex (x : list Q) (delta : Q) :
  (qsum x == 1)%Q -> (qsum (replace_zeros_det x delta) == 1)%Q.
Proof.
  intros Hs. unfold replace_zeros_det. cbv zeta.
  rewrite replace_zeros_sum_gen, Hs. ring.
Qed.

(* ---- 8. convex combinations ---- *)
Lemma qsum_swap {A B} (f : A -> B -> Q) (la : list A) (lb : list B) :
  (qsum (map (fun a => qsum (map (fun b => f a b) lb)) la)
   == qsum (map (fun b => qsum (map (fun a => f a b) la)) lb))%Q.
Proof.
  induction la as [|a0 la IH]; cbn [map qsum].
  - rewrite qsum_map_zero. reflexivity.
  - rewrite IH, <- qsum_map_add. reflexivity.
Qed.

Lemma qsum_nth_seq (p : list Q) :
  (qsum (map (fun j => nth j p 0%Q) (seq 0 (length p))) == qsum p)%Q.
Proof.
  induction p as [|a t IH]; [reflexivity|].
  cbn [length seq map qsum nth]. rewrite <- seq_shift, map_map. cbn [nth].
  rewrite IH. reflexivity.
Qed.

Lemma map_snd_combine {A B} (la : list A) (lb : list B) :
  length la = length lb -> map snd (combine la lb) = lb.
Proof.
  revert lb. induction la as [|a la IH]; intros [|b lb] H; simpl in *; try congruence.
  f_equal. apply IH. congruence.
Qed.

Lemma in_combine_fst {A B} (la : list A) (lb : list B) (ab : A * B) :
  In ab (combine la lb) -> In (fst ab) la.
Proof. destruct ab as [a b]. apply in_combine_l. Qed.

Theorem convex_combination_sum (n : nat) (ps : list (list Q)) (ws : list Q) :
  (forall p, In p ps -> (qsum p == 1)%Q /\ length p = n) ->
  ~ (qsum ws == 0)%Q -> length ps = length ws -> ps <> [] ->
  (qsum (convex_combination ps ws) == 1)%Q.
Proof.
  intros Hps Hws Hlen Hne. unfold convex_combination. cbv zeta.
  destruct ps as [|p0 ps']; [congruence|].
  set (ps := p0 :: ps') in *.
  assert (Hn0 : length p0 = n) by (apply Hps; left; reflexivity).
  rewrite Hn0.
  rewrite (qsum_swap (fun j pw => (nth j (fst pw) 0 * (snd pw / qsum ws))%Q)).
  rewrite (qsum_map_ext_in _ (fun pw => (snd pw * / qsum ws)%Q)).
  - rewrite (qsum_map_scale snd).
    rewrite map_snd_combine by exact Hlen.
    field. exact Hws.
  - intros pw Hin. apply in_combine_fst in Hin. destruct (Hps _ Hin) as [Hs Hl].
    rewrite (qsum_map_scale (fun j => nth j (fst pw) 0%Q)).
    rewrite <- Hl, qsum_nth_seq, Hs. unfold Qdiv. ring.
Qed.

(* ---- 9. the simplex grid ---- *)
Lemma compositions_S (k n : nat) :
  compositions (S k) n
  = flat_map (fun first => map (cons first) (compositions k (n - first))) (seq 0 (S n)).
Proof. reflexivity. Qed.

Lemma in_compositions_S (k n : nat) (c : list nat) :
  In c (compositions (S k) n) <->
  exists f c', c = f :: c' /\ (f <= n)%nat /\ In c' (compositions k (n - f)).
Proof.
  rewrite compositions_S, in_flat_map. split.
  - intros [f [Hf Hc]]. apply in_seq in Hf. apply in_map_iff in Hc as [c' [Hc' Hin]].
    exists f, c'. repeat split; [symmetry; exact Hc'| lia| exact Hin].
  - intros [f [c' [Hc [Hf Hin]]]]. exists f. split; [apply in_seq; lia|].
    apply in_map_iff. exists c'. split; [symmetry; exact Hc| exact Hin].
Qed.

Theorem compositions_sum (k n : nat) (c : list nat) :
  In c (compositions k n) -> length c = k /\ fold_right Nat.add 0%nat c = n.
Proof.
  revert n c. induction k as [|k IH]; intros n c Hin.
  - destruct n as [|n]; simpl in Hin; [|contradiction].
    destruct Hin as [Hc|[]]. subst c. split; reflexivity.
  - apply in_compositions_S in Hin as [f [c' [Hc [Hf Hin]]]]. subst c.
    destruct (IH _ _ Hin) as [Hl Hs]. simpl. split; [congruence| lia].
Qed.

Theorem compositions_complete (k n : nat) (c : list nat) :
  length c = k -> fold_right Nat.add 0%nat c = n -> In c (compositions k n).
Proof.
  revert n c. induction k as [|k IH]; intros n c Hl Hs.
  - destruct c as [|a c]; [|discriminate]. simpl in Hs. subst n. simpl. left. reflexivity.
  - destruct c as [|a c]; [discriminate|]. simpl in Hl, Hs.
    apply in_compositions_S. exists a, c. repeat split; [lia|].
    apply IH; [congruence| lia].
Qed.

Lemma NoDup_app_intro {A} (l1 l2 : list A) :
  NoDup l1 -> NoDup l2 -> (forall a, In a l1 -> ~ In a l2) -> NoDup (l1 ++ l2).
Proof.
  intros H1 H2 Hd. induction H1 as [|a l1 Ha H1 IH]; [exact H2|].
  simpl. constructor.
  - rewrite in_app_iff. intros [Hin|Hin]; [exact (Ha Hin)|].
    apply (Hd a); [left; reflexivity| exact Hin].
  - apply IH. intros b Hb. apply Hd. right. exact Hb.
Qed.

Lemma NoDup_map_cons {A} (a : A) (l : list (list A)) : NoDup l -> NoDup (map (cons a) l).
Proof.
  intros H. apply FinFun.Injective_map_NoDup; [|exact H].
  intros x y Hxy. congruence.
Qed.

Lemma NoDup_flat_map_cons {A} (g : A -> list (list A)) (l : list A) :
  NoDup l -> (forall a, NoDup (g a)) -> NoDup (flat_map (fun a => map (cons a) (g a)) l).
Proof.
  intros Hl Hg. induction Hl as [|a l Ha Hl IH]; [constructor|].
  simpl. apply NoDup_app_intro; [apply NoDup_map_cons, Hg| exact IH|].
  intros c Hc Hc'. apply in_map_iff in Hc as [c1 [Hc1 _]].
  apply in_flat_map in Hc' as [b [Hb Hc2]]. apply in_map_iff in Hc2 as [c2 [Hc2 _]].
  subst c. inversion Hc2; subst. exact (Ha Hb).
Qed.

Theorem compositions_nodup (k n : nat) : NoDup (compositions k n).
Proof.
  revert n. induction k as [|k IH]; intros n.
  - destruct n; simpl; [constructor; [intros []| constructor]| constructor].
  - rewrite compositions_S.
    apply (NoDup_flat_map_cons (fun f => compositions k (n - f))); [apply seq_NoDup|].
    intros a. apply IH.
Qed.

(* boolean reflections *)
Lemma nl_eqb_eq (a b : list nat) : nl_eqb a b = true <-> a = b.
Proof.
  revert b; induction a as [|x a IH]; intros [|y b]; simpl; split; intros H;
    try congruence; try discriminate.
  - apply andb_true_iff in H as [H1 H2]. apply Nat.eqb_eq in H1. apply IH in H2. congruence.
  - inversion H; subst. rewrite Nat.eqb_refl. simpl. apply IH. reflexivity.
Qed.

Lemma nl_mem_In (x : list nat) (l : list (list nat)) : nl_mem x l = true <-> In x l.
Proof.
  unfold nl_mem. rewrite existsb_exists. split.
  - intros [y [Hin Hy]]. apply nl_eqb_eq in Hy. subst. exact Hin.
  - intros H. exists x. split; [exact H| apply nl_eqb_eq; reflexivity].
Qed.

Lemma nl_nodup_NoDup (l : list (list nat)) : nl_nodup l = true <-> NoDup l.
Proof.
  induction l as [|x t IH]; simpl.
  - split; [constructor| reflexivity].
  - rewrite andb_true_iff, negb_true_iff, IH. split.
    + intros [Hm Ht]. constructor; [|exact Ht].
      intros Hin. apply nl_mem_In in Hin. congruence.
    + intros H. inversion H as [|x' t' Hx Ht]; subst. split; [|exact Ht].
      destruct (nl_mem x t) eqn:E; [|reflexivity]. apply nl_mem_In in E. contradiction.
Qed.

Theorem grid_ok_spec (k n : nat) (obs : list (list nat)) :
  grid_ok k n obs = true ->
  NoDup obs /\ (forall c, In c obs <-> (length c = k /\ fold_right Nat.add 0%nat c = n)).
Proof.
  unfold grid_ok. cbv zeta. rewrite !andb_true_iff.
  intros [[[_ Hnd] Hsup] Hsub].
  rewrite forallb_forall in Hsup, Hsub.
  split; [apply nl_nodup_NoDup; exact Hnd|].
  intros c. split.
  - intros Hin. apply compositions_sum. apply nl_mem_In. apply Hsub. exact Hin.
  - intros [Hl Hs]. apply nl_mem_In. apply Hsup. apply compositions_complete; assumption.
Qed.

(* converse: any duplicate-free enumeration of the grid passes the check *)
Theorem grid_ok_complete (k n : nat) (obs : list (list nat)) :
  NoDup obs -> (forall c, In c obs <-> (length c = k /\ fold_right Nat.add 0%nat c = n)) ->
  grid_ok k n obs = true.
Proof.
  intros Hnd Hspec. unfold grid_ok. cbv zeta. rewrite !andb_true_iff.
  assert (Hiff : forall c, In c obs <-> In c (compositions k n)).
  { intros c. rewrite Hspec. split; [intros [H1 H2]; apply compositions_complete; assumption|
                                     apply compositions_sum]. }
  repeat split.
  - apply Nat.eqb_eq. apply Permutation_length.
    apply NoDup_Permutation; [exact Hnd| apply compositions_nodup| exact Hiff].
  - apply nl_nodup_NoDup. exact Hnd.
  - apply forallb_forall. intros c Hc. apply nl_mem_In, Hiff. exact Hc.
  - apply forallb_forall. intros c Hc. apply nl_mem_In, Hiff. exact Hc.
Qed.

(* ---- 10. non-vacuity ---- *)
Example compositions_3_2_length : length (compositions 3 2) = 6%nat.
Proof. vm_compute. reflexivity. Qed.

Example compositions_3_2 :
  compositions 3 2 = [[0;0;2]; [0;1;1]; [0;2;0]; [1;0;1]; [1;1;0]; [2;0;0]]%nat.
Proof. vm_compute. reflexivity. Qed.

Example grid_ok_3_2 : grid_ok 3 2 (rev (compositions 3 2)) = true.
Proof. vm_compute. reflexivity. Qed.

Example grid_ok_3_2_missing : grid_ok 3 2 (tl (compositions 3 2)) = false.
Proof. vm_compute. reflexivity. Qed.

Example clr_inv_clr_example :
  rclr_inv (rclr [1/2; 1/4; 1/4]) = [1/2; 1/4; 1/4].
Proof.
  rewrite clr_inv_clr.
  - apply rclosure_idem. simpl. lra.
  - repeat constructor; lra.
  - discriminate.
Qed.

Example alr_inv_alr_example :
  ralr_inv (ralr [1/2; 1/4; 1/4]) = [1/2; 1/4; 1/4].
Proof.
  rewrite alr_inv_alr.
  - apply rclosure_idem. simpl. lra.
  - repeat constructor; lra.
  - discriminate.
Qed.

Example replace_zeros_example :
  replace_zeros_det [1#2; 0; 1#2; 0]%Q (1#100)%Q = [98#200; 1#100; 98#200; 1#100]%Q.
Proof. vm_compute. reflexivity. Qed.

Example convex_combination_example :
  (qsum (convex_combination [[1#2; 1#2]; [1#4; 3#4]] [1; 3]) == 1)%Q.
Proof.
  apply (convex_combination_sum 2).
  - intros p [Hp|[Hp|[]]]; subst p; split; reflexivity.
  - vm_compute. discriminate.
  - reflexivity.
  - discriminate.
Qed.

(* ---- stretch: ilr isometry in dimensions 2 and 3 ---- *)
Lemma sqrt_half_sq : sqrt (1 / 2) * sqrt (1 / 2) = 1 / 2.
Proof. apply sqrt_sqrt. lra. Qed.
Lemma sqrt_two_thirds_sq : sqrt (2 / 3) * sqrt (2 / 3) = 2 / 3.
Proof. apply sqrt_sqrt. lra. Qed.

Lemma Q2R_1_1 : Q2R (1 / inject_Z (Z.of_nat 1)) = 1.
Proof. unfold Q2R. simpl. lra. Qed.
Lemma Q2R_1_2 : Q2R (1 / inject_Z (Z.of_nat 2)) = 1 / 2.
Proof. unfold Q2R. simpl. lra. Qed.
Lemma Q2R_1_3 : Q2R (1 / inject_Z (Z.of_nat 3)) = 1 / 3.
Proof. unfold Q2R. simpl. lra. Qed.
Lemma Q2R_r12 : Q2R (inject_Z (Z.of_nat 1) / inject_Z (Z.of_nat 2)) = 1 / 2.
Proof. unfold Q2R. simpl. lra. Qed.
Lemma Q2R_r23 : Q2R (inject_Z (Z.of_nat 2) / inject_Z (Z.of_nat 3)) = 2 / 3.
Proof. unfold Q2R. simpl. lra. Qed.

Theorem ilr_isometry_2 (x0 x1 y0 y1 : Q) :
  let x := [x0; x1] in let y := [y0; y1] in
  (rden (ilr_k x 1) - rden (ilr_k y 1)) ^ 2
  = (rden (clr_i x 0) - rden (clr_i y 0)) ^ 2 + (rden (clr_i x 1) - rden (clr_i y 1)) ^ 2.
Proof.
  cbv zeta. unfold ilr_k, clr_i, rsub, rscale, lg.
  cbn [length firstn map r_sum20 nth rden].
  rewrite Q2R_1_1, Q2R_1_2, Q2R_r12.
  generalize (log2 (Q2R x0)) (log2 (Q2R x1)) (log2 (Q2R y0)) (log2 (Q2R y1)).
  intros a b c d. pose proof sqrt_half_sq as E. set (s := sqrt (1 / 2)) in *.
  replace ((s * (1 * a + - b) - s * (1 * c + - d)) ^ 2)
    with (s * s * ((a - b) - (c - d)) ^ 2) by ring.
  rewrite E. field.
Qed.

Theorem ilr_isometry_3 (x0 x1 x2 y0 y1 y2 : Q) :
  let x := [x0; x1; x2] in let y := [y0; y1; y2] in
  (rden (ilr_k x 1) - rden (ilr_k y 1)) ^ 2 + (rden (ilr_k x 2) - rden (ilr_k y 2)) ^ 2
  = (rden (clr_i x 0) - rden (clr_i y 0)) ^ 2 + (rden (clr_i x 1) - rden (clr_i y 1)) ^ 2
    + (rden (clr_i x 2) - rden (clr_i y 2)) ^ 2.
Proof.
  cbv zeta. unfold ilr_k, clr_i, rsub, rscale, lg.
  cbn [length firstn map r_sum20 nth rden].
  rewrite Q2R_1_1, Q2R_1_2, Q2R_1_3, Q2R_r12, Q2R_r23.
  generalize (log2 (Q2R x0)) (log2 (Q2R x1)) (log2 (Q2R x2))
             (log2 (Q2R y0)) (log2 (Q2R y1)) (log2 (Q2R y2)).
  intros a0 a1 a2 b0 b1 b2.
  pose proof sqrt_half_sq as E1. pose proof sqrt_two_thirds_sq as E2.
  set (s1 := sqrt (1 / 2)) in *. set (s2 := sqrt (2 / 3)) in *.
  match goal with |- ?L = _ =>
    replace L with (s1 * s1 * ((a0 - a1) - (b0 - b1)) ^ 2
                    + s2 * s2 * (((a0 + a1) / 2 - a2) - ((b0 + b1) / 2 - b2)) ^ 2) by field
  end.
  rewrite E1, E2. field.
Qed.

(* the Aitchison distance of the model is the Euclidean distance of the ilr coordinates *)
Theorem adist_ilr_2 (x0 x1 y0 y1 : Q) :
  let x := [x0; x1] in let y := [y0; y1] in
  rden (adist x y) = sqrt ((rden (ilr_k x 1) - rden (ilr_k y 1)) ^ 2).
Proof.
  cbv zeta. rewrite ilr_isometry_2.
  unfold adist. cbn [length seq map r_sum20]. unfold rsub. cbn [rden]. f_equal. ring.
Qed.

Theorem adist_ilr_3 (x0 x1 x2 y0 y1 y2 : Q) :
  let x := [x0; x1; x2] in let y := [y0; y1; y2] in
  rden (adist x y)
  = sqrt ((rden (ilr_k x 1) - rden (ilr_k y 1)) ^ 2 + (rden (ilr_k x 2) - rden (ilr_k y 2)) ^ 2).
Proof.
  cbv zeta. rewrite ilr_isometry_3.
  unfold adist. cbn [length seq map r_sum20]. unfold rsub. cbn [rden]. f_equal. ring.
Qed.

Print Assumptions clr_inv_clr.
Print Assumptions compositions_complete.
Print Assumptions grid_ok_spec.
Print Assumptions convex_combination_sum.
Print Assumptions replace_zeros_simplex.
Print Assumptions ilr_isometry_3.
