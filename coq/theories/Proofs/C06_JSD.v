(* Proofs/C06_JSD.v — the Jensen-Shannon divergence of a weighted family of pmfs lies between 0 and
   the entropy of the weights (C06 extension).  Stdlib (Reals) only.

   `entropy_list` of Core/Info.v takes lists of RATIONALS (its value is a real, in bits), so the
   weighted family is rational data: ws : list Q, rows : list (list Q), aligned on n outcome labels. *)
From Verif Require Import Info.
From Verif Require Import Dist Dist_Proofs C02_Model C02_Proofs Measures C06_Model Info_Proofs Entropy_Bridge.
From Coq Require Import Lra Permutation.
Import ListNotations.
Open Scope R_scope.

(* ------------------------------------------------------------------------------------------ *)
(* 0. definitions *)

Fixpoint map2 {A B C : Type} (f : A -> B -> C) (la : list A) (lb : list B) : list C :=
  match la, lb with
  | a :: la', b :: lb' => f a b :: map2 f la' lb'
  | _, _ => []
  end.

(* k-th entry: sum_i w_i * p_i(k) *)
Definition mixture (ws : list Q) (rows : list (list Q)) (n : nat) : list Q :=
  map (fun k => qsum (map2 (fun w p => (w * nth k p 0)%Q) ws rows)) (seq 0 n).

(* H(mixture) - sum_i w_i H(p_i), in bits *)
Definition jsd_r (ws : list Q) (rows : list (list Q)) (n : nat) : R :=
  entropy_list (mixture ws rows n) - rsum (map2 (fun w p => Q2R w * entropy_list p) ws rows).

Definition row_ok (n : nat) (p : list Q) : Prop :=
  length p = n /\ Forall (fun q => (0 <= q)%Q) p /\ (qsum p == 1)%Q.

Definition fam_ok (ws : list Q) (rows : list (list Q)) (n : nat) : Prop :=
  length ws = length rows /\
  Forall (fun q => (0 <= q)%Q) ws /\
  (qsum ws == 1)%Q /\
  Forall (row_ok n) rows.

(* ------------------------------------------------------------------------------------------ *)
(* 1. finite real sums over index lists *)

Lemma rsum_map_ext {A} (f g : A -> R) l :
  (forall x, In x l -> f x = g x) -> rsum (map f l) = rsum (map g l).
Proof.
  induction l as [|x t IH]; intros H; simpl; [reflexivity|].
  rewrite (H x (or_introl eq_refl)), IH; [reflexivity|].
  intros y Hy. apply H. right. exact Hy.
Qed.

Lemma rsum_map_le {A} (f g : A -> R) l :
  (forall x, In x l -> f x <= g x) -> rsum (map f l) <= rsum (map g l).
Proof.
  induction l as [|x t IH]; intros H; simpl; [lra|].
  pose proof (H x (or_introl eq_refl)) as Hx.
  assert (Ht : rsum (map f t) <= rsum (map g t)).
  { apply IH. intros y Hy. apply H. right. exact Hy. }
  lra.
Qed.

Lemma rsum_map_add {A} (f g : A -> R) l :
  rsum (map (fun x => f x + g x) l) = rsum (map f l) + rsum (map g l).
Proof. induction l as [|x t IH]; simpl; [lra| rewrite IH; lra]. Qed.

Lemma rsum_map_sub {A} (f g : A -> R) l :
  rsum (map (fun x => f x - g x) l) = rsum (map f l) - rsum (map g l).
Proof. induction l as [|x t IH]; simpl; [lra| rewrite IH; lra]. Qed.

Lemma rsum_map_scal {A} (c : R) (f : A -> R) l :
  rsum (map (fun x => c * f x) l) = c * rsum (map f l).
Proof. induction l as [|x t IH]; simpl; [lra| rewrite IH; lra]. Qed.

Lemma rsum_map_scal_r {A} (c : R) (f : A -> R) l :
  rsum (map (fun x => f x * c) l) = rsum (map f l) * c.
Proof. induction l as [|x t IH]; simpl; [lra| rewrite IH; lra]. Qed.

Lemma rsum_map_zero {A} (l : list A) : rsum (map (fun _ => 0) l) = 0.
Proof. induction l as [|x t IH]; simpl; lra. Qed.

Lemma rsum_map_nonneg {A} (f : A -> R) l :
  (forall x, In x l -> 0 <= f x) -> 0 <= rsum (map f l).
Proof.
  intros H. rewrite <- (rsum_map_zero l). apply rsum_map_le. exact H.
Qed.

Lemma rsum_term_le {A} (f : A -> R) l x :
  (forall y, In y l -> 0 <= f y) -> In x l -> f x <= rsum (map f l).
Proof.
  induction l as [|a t IH]; intros Hn Hin; [contradiction|]. simpl.
  assert (Ht : 0 <= rsum (map f t)).
  { apply rsum_map_nonneg. intros y Hy. apply Hn. right. exact Hy. }
  pose proof (Hn a (or_introl eq_refl)) as Ha.
  destruct Hin as [->|Hin]; [lra|].
  assert (Hx : f x <= rsum (map f t)).
  { apply IH; [|exact Hin]. intros y Hy. apply Hn. right. exact Hy. }
  lra.
Qed.

(* Fubini for finite sums *)
Lemma rsum_swap {A B} (g : A -> B -> R) (la : list A) (lb : list B) :
  rsum (map (fun a => rsum (map (fun b => g a b) lb)) la) =
  rsum (map (fun b => rsum (map (fun a => g a b) la)) lb).
Proof.
  induction la as [|a t IH]; simpl.
  - rewrite rsum_map_zero. reflexivity.
  - rewrite IH.
    rewrite (rsum_map_add (fun b => g a b) (fun b => rsum (map (fun a0 => g a0 b) t)) lb).
    reflexivity.
Qed.

(* ------------------------------------------------------------------------------------------ *)
(* 2. the two bounds for index functions: w : weights, p i : the i-th pmf, over index lists li, lk.
      Everything is in nats here: xlnx x = x ln x (and 0 ln 0 = 0 holds definitionally up to ring). *)

Definition xlnx (x : R) : R := x * ln x.

Section Abstract.
  Context {A B : Type}.
  Variables (li : list A) (lk : list B) (w : A -> R) (p : A -> B -> R).

  Definition mixf (k : B) : R := rsum (map (fun i => w i * p i k) li).

  (* JSD in nats *)
  Definition jsd_abs : R :=
    - rsum (map (fun k => xlnx (mixf k)) lk) + rsum (map (fun i => w i * rsum (map (fun k => xlnx (p i k)) lk)) li).

  (* as a double sum: sum_i sum_k w_i p_ik (ln p_ik - ln m_k) *)
  Definition jsd_term (i : A) (k : B) : R := w i * p i k * (ln (p i k) - ln (mixf k)).

  Lemma jsd_abs_double : jsd_abs = rsum (map (fun i => rsum (map (fun k => jsd_term i k) lk)) li).
  Proof.
    unfold jsd_abs.
    assert (E1 : rsum (map (fun k => xlnx (mixf k)) lk)
                 = rsum (map (fun i => rsum (map (fun k => w i * p i k * ln (mixf k)) lk)) li)).
    { rewrite (rsum_swap (fun i k => w i * p i k * ln (mixf k)) li lk).
      apply rsum_map_ext. intros k _.
      rewrite (rsum_map_scal_r (ln (mixf k)) (fun i => w i * p i k) li). reflexivity. }
    rewrite E1.
    assert (E2 : rsum (map (fun i => rsum (map (fun k => jsd_term i k) lk)) li)
                 = rsum (map (fun i => w i * rsum (map (fun k => xlnx (p i k)) lk)
                                       - rsum (map (fun k => w i * p i k * ln (mixf k)) lk)) li)).
    { apply rsum_map_ext. intros i _.
      rewrite <- (rsum_map_scal (w i) (fun k => xlnx (p i k)) lk).
      rewrite <- (rsum_map_sub (fun k => w i * xlnx (p i k)) (fun k => w i * p i k * ln (mixf k)) lk).
      apply rsum_map_ext. intros k _. unfold jsd_term, xlnx. ring. }
    rewrite E2.
    rewrite (rsum_map_sub (fun i => w i * rsum (map (fun k => xlnx (p i k)) lk))
                          (fun i => rsum (map (fun k => w i * p i k * ln (mixf k)) lk)) li).
    lra.
  Qed.

  Hypothesis Hw : forall i, 0 <= w i.
  Hypothesis Hp : forall i k, 0 <= p i k.
  Hypothesis Hws : rsum (map w li) = 1.
  Hypothesis Hps : forall i, In i li -> rsum (map (p i) lk) = 1.

  Lemma mix_nonneg k : 0 <= mixf k.
  Proof.
    unfold mixf. apply rsum_map_nonneg. intros i _. apply Rmult_le_pos; [apply Hw| apply Hp].
  Qed.

  Lemma term_le_mix i k : In i li -> w i * p i k <= mixf k.
  Proof.
    intros Hi. unfold mixf.
    apply (rsum_term_le (fun i => w i * p i k) li i); [|exact Hi].
    intros j _. apply Rmult_le_pos; [apply Hw| apply Hp].
  Qed.

  Lemma mix_sum : rsum (map mixf lk) = 1.
  Proof.
    unfold mixf. rewrite <- (rsum_swap (fun i k => w i * p i k) li lk).
    rewrite <- Hws. apply rsum_map_ext. intros i Hi.
    rewrite (rsum_map_scal (w i) (fun k => p i k) lk).
    replace (map (fun k => p i k) lk) with (map (p i) lk) by reflexivity.
    rewrite (Hps i Hi). ring.
  Qed.

  (* Gibbs, per row: sum_k p_ik (ln p_ik - ln m_k) >= sum_k p_ik - sum_k m_k = 0 when w_i > 0;
     a row of weight 0 contributes 0 whatever its support *)
  Lemma row_nonneg i : In i li -> 0 <= rsum (map (fun k => jsd_term i k) lk).
  Proof.
    intros Hi. destruct (Req_dec (w i) 0) as [E|Hne].
    - right. rewrite <- (rsum_map_zero lk). apply rsum_map_ext. intros k _.
      unfold jsd_term. rewrite E. ring.
    - assert (Hwi : 0 < w i) by (pose proof (Hw i); lra).
      assert (Hk : forall k, In k lk -> w i * (p i k - mixf k) <= jsd_term i k).
      { intros k _. unfold jsd_term. rewrite Rmult_assoc.
        apply Rmult_le_compat_l; [lra|].
        assert (Hd : 0 < mixf k \/ p i k = 0).
        { destruct (Req_dec (p i k) 0) as [E|Hpn]; [right; exact E| left].
          assert (Hpp : 0 < p i k) by (pose proof (Hp i k); lra).
          pose proof (term_le_mix i k Hi) as Hle.
          pose proof (Rmult_lt_0_compat _ _ Hwi Hpp). lra. }
        pose proof (mix_nonneg k) as Hm.
        destruct (klterm_ge (p i k) (mixf k) (Hp i k) Hd) as [H1|[H0 H1]]; unfold klterm in H1; lra. }
      pose proof (rsum_map_le _ _ lk Hk) as Hs.
      rewrite (rsum_map_scal (w i) (fun k => p i k - mixf k) lk) in Hs.
      rewrite (rsum_map_sub (fun k => p i k) mixf lk) in Hs.
      replace (map (fun k => p i k) lk) with (map (p i) lk) in Hs by reflexivity.
      rewrite (Hps i Hi), mix_sum in Hs. apply Rle_trans with (w i * (1 - 1)); [lra| exact Hs].
  Qed.

  Theorem jsd_abs_nonneg : 0 <= jsd_abs.
  Proof.
    rewrite jsd_abs_double. apply rsum_map_nonneg. exact row_nonneg.
  Qed.

  (* m_k >= w_i p_ik gives ln p_ik - ln m_k <= - ln w_i wherever w_i p_ik > 0 *)
  Lemma term_le_weight i k : In i li -> jsd_term i k <= w i * p i k * (- ln (w i)).
  Proof.
    intros Hi. unfold jsd_term.
    destruct (Req_dec (w i * p i k) 0) as [E|Hne].
    - rewrite E. lra.
    - assert (Hwi : 0 < w i).
      { pose proof (Hw i). destruct (Req_dec (w i) 0) as [E|]; [rewrite E in Hne; lra| lra]. }
      assert (Hpp : 0 < p i k).
      { pose proof (Hp i k). destruct (Req_dec (p i k) 0) as [E|]; [rewrite E in Hne; lra| lra]. }
      pose proof (Rmult_lt_0_compat _ _ Hwi Hpp) as Ha.
      pose proof (term_le_mix i k Hi) as Hle.
      assert (Hln : ln (w i * p i k) <= ln (mixf k)).
      { destruct Hle as [Hlt|Heq]; [left; apply ln_increasing; assumption| rewrite Heq; lra]. }
      rewrite ln_mult in Hln by assumption.
      apply Rmult_le_compat_l; lra.
  Qed.

  Theorem jsd_abs_le_weights : jsd_abs <= - rsum (map (fun i => xlnx (w i)) li).
  Proof.
    rewrite jsd_abs_double.
    assert (E : - rsum (map (fun i => xlnx (w i)) li)
                = rsum (map (fun i => rsum (map (fun k => w i * p i k * (- ln (w i))) lk)) li)).
    { replace (- rsum (map (fun i => xlnx (w i)) li)) with (- 1 * rsum (map (fun i => xlnx (w i)) li)) by ring.
      rewrite <- (rsum_map_scal (- 1) (fun i => xlnx (w i)) li).
      apply rsum_map_ext. intros i Hi.
      rewrite (rsum_map_scal_r (- ln (w i)) (fun k => w i * p i k) lk).
      rewrite (rsum_map_scal (w i) (fun k => p i k) lk).
      replace (map (fun k => p i k) lk) with (map (p i) lk) by reflexivity.
      rewrite (Hps i Hi). unfold xlnx. ring. }
    rewrite E. apply rsum_map_le. intros i Hi. apply rsum_map_le. intros k _.
    apply term_le_weight. exact Hi.
  Qed.

  (* all rows equal: the divergence vanishes *)
  Theorem jsd_abs_self (q : B -> R) : (forall i k, In i li -> p i k = q k) -> jsd_abs = 0.
  Proof.
    intros Hq. unfold jsd_abs.
    assert (Hm : forall k, mixf k = q k).
    { intros k. unfold mixf.
      rewrite (rsum_map_ext (fun i => w i * p i k) (fun i => w i * q k) li)
        by (intros i Hi; rewrite (Hq i k Hi); reflexivity).
      rewrite (rsum_map_scal_r (q k) w li), Hws. ring. }
    rewrite (rsum_map_ext (fun k => xlnx (mixf k)) (fun k => xlnx (q k)) lk)
      by (intros k _; rewrite Hm; reflexivity).
    rewrite (rsum_map_ext (fun i => w i * rsum (map (fun k => xlnx (p i k)) lk))
                          (fun i => w i * rsum (map (fun k => xlnx (q k)) lk)) li).
    - rewrite (rsum_map_scal_r (rsum (map (fun k => xlnx (q k)) lk)) w li), Hws. ring.
    - intros i Hi. f_equal. apply rsum_map_ext. intros k _. rewrite (Hq i k Hi). reflexivity.
  Qed.
End Abstract.

(* ------------------------------------------------------------------------------------------ *)
(* 3. from rational lists to index functions *)

Lemma plogp_N q : (0 <= q)%Q -> plogp q = xlnx (Q2R q) / ln 2.
Proof.
  intros Hq. unfold plogp, xlnx. destruct (Qle_bool q 0) eqn:E.
  - rewrite (qle0_true_zero q Hq E). unfold Rdiv. ring.
  - unfold log2. pose proof ln2_pos as H2. field. lra.
Qed.

Lemma map_nth_seq {A} (l : list A) (d : A) : map (fun j => nth j l d) (seq 0 (length l)) = l.
Proof.
  induction l as [|x t IH]; simpl; [reflexivity|].
  f_equal. rewrite <- seq_shift, map_map. exact IH.
Qed.

Lemma map2_nth {A B C} (f : A -> B -> C) (la : list A) (lb : list B) (da : A) (db : B) :
  length la = length lb ->
  map2 f la lb = map (fun i => f (nth i la da) (nth i lb db)) (seq 0 (length la)).
Proof.
  revert lb. induction la as [|a t IH]; intros [|b lb] Hl; simpl in *; try discriminate; [reflexivity|].
  f_equal. rewrite <- seq_shift, map_map. apply IH. injection Hl as Hl. exact Hl.
Qed.

Lemma nth_nonneg l i : Forall (fun q => (0 <= q)%Q) l -> (0 <= nth i l 0)%Q.
Proof.
  intros H. destruct (nth_in_or_default i l 0%Q) as [Hin|E].
  - rewrite Forall_forall in H. apply H, Hin.
  - rewrite E. apply Qle_refl.
Qed.

Lemma rsum_nth_Q l : rsum (map (fun i => Q2R (nth i l 0%Q)) (seq 0 (length l))) = Q2R (qsum l).
Proof.
  rewrite Q2R_qsum. rewrite <- (map_map (fun i => nth i l 0%Q) Q2R), map_nth_seq. reflexivity.
Qed.

Lemma entropy_list_idx l :
  Forall (fun q => (0 <= q)%Q) l ->
  entropy_list l = - rsum (map (fun k => xlnx (Q2R (nth k l 0%Q))) (seq 0 (length l))) / ln 2.
Proof.
  intros H. unfold entropy_list.
  transitivity (- rsum (map plogp (map (fun k => nth k l 0%Q) (seq 0 (length l))))).
  { rewrite map_nth_seq. reflexivity. }
  rewrite map_map.
  rewrite (rsum_map_ext (fun k => plogp (nth k l 0%Q)) (fun k => xlnx (Q2R (nth k l 0%Q)) * / ln 2))
    by (intros k _; apply plogp_N, nth_nonneg, H).
  rewrite (rsum_map_scal_r (/ ln 2) (fun k => xlnx (Q2R (nth k l 0%Q)))). unfold Rdiv. ring.
Qed.

Definition wfun (ws : list Q) (i : nat) : R := Q2R (nth i ws 0%Q).
Definition pfun (rows : list (list Q)) (i k : nat) : R := Q2R (nth k (nth i rows []) 0%Q).

Lemma wf_nonneg ws i : Forall (fun q => (0 <= q)%Q) ws -> 0 <= wfun ws i.
Proof. intros H. unfold wfun. apply Q2R_nonneg, nth_nonneg, H. Qed.

Lemma pf_nonneg rows n i k : Forall (row_ok n) rows -> 0 <= pfun rows i k.
Proof.
  intros H. unfold pfun. apply Q2R_nonneg, nth_nonneg.
  destruct (nth_in_or_default i rows []) as [Hin|E].
  - rewrite Forall_forall in H. exact (proj1 (proj2 (H _ Hin))).
  - rewrite E. constructor.
Qed.

Lemma wf_sum ws : (qsum ws == 1)%Q -> rsum (map (wfun ws) (seq 0 (length ws))) = 1.
Proof.
  intros H. unfold wfun. rewrite (rsum_nth_Q ws), (Qeq_eqR _ _ H). exact Q2R_1.
Qed.

Lemma row_at rows n i : Forall (row_ok n) rows -> In i (seq 0 (length rows)) -> row_ok n (nth i rows []).
Proof.
  intros H Hi. apply in_seq in Hi. rewrite Forall_forall in H. apply H, nth_In. lia.
Qed.

Lemma pf_sum rows n i :
  Forall (row_ok n) rows -> In i (seq 0 (length rows)) -> rsum (map (pfun rows i) (seq 0 n)) = 1.
Proof.
  intros H Hi. destruct (row_at rows n i H Hi) as (Hl & _ & Hs).
  unfold pfun. rewrite <- Hl. rewrite (rsum_nth_Q (nth i rows [])), (Qeq_eqR _ _ Hs). exact Q2R_1.
Qed.

Lemma mixture_entry ws rows k :
  length ws = length rows ->
  Q2R (qsum (map2 (fun w p => (w * nth k p 0)%Q) ws rows)) = mixf (seq 0 (length ws)) (wfun ws) (pfun rows) k.
Proof.
  intros Hl. rewrite Q2R_qsum, (map2_nth _ ws rows 0%Q [] Hl), map_map. unfold mixf.
  apply rsum_map_ext. intros i _. rewrite Q2R_mult. reflexivity.
Qed.

(* the bits value is the abstract nats value divided by ln 2 *)
Lemma jsd_r_abs ws rows n :
  fam_ok ws rows n ->
  jsd_r ws rows n = jsd_abs (seq 0 (length ws)) (seq 0 n) (wfun ws) (pfun rows) / ln 2.
Proof.
  intros (Hl & Hw & Hs & Hr). unfold jsd_r.
  pose proof ln2_pos as H2.
  (* entropy of the mixture *)
  assert (E1 : entropy_list (mixture ws rows n)
               = - rsum (map (fun k => xlnx (mixf (seq 0 (length ws)) (wfun ws) (pfun rows) k)) (seq 0 n)) / ln 2).
  { unfold entropy_list, mixture. rewrite map_map.
    rewrite (rsum_map_ext
               (fun k => plogp (qsum (map2 (fun w p => (w * nth k p 0)%Q) ws rows)))
               (fun k => xlnx (mixf (seq 0 (length ws)) (wfun ws) (pfun rows) k) * / ln 2)).
    - rewrite (rsum_map_scal_r (/ ln 2)). unfold Rdiv. ring.
    - intros k _. rewrite <- (mixture_entry ws rows k Hl). apply plogp_N.
      apply Rle_Qle. rewrite Q2R_0, (mixture_entry ws rows k Hl).
      apply mix_nonneg; [intros i; apply wf_nonneg, Hw| intros i j; apply (pf_nonneg rows n), Hr]. }
  (* weighted entropies of the rows *)
  assert (E2 : rsum (map2 (fun w p => Q2R w * entropy_list p) ws rows)
               = - rsum (map (fun i => wfun ws i * rsum (map (fun k => xlnx (pfun rows i k)) (seq 0 n)))
                             (seq 0 (length ws))) / ln 2).
  { rewrite (map2_nth _ ws rows 0%Q [] Hl).
    rewrite (rsum_map_ext
               (fun i => Q2R (nth i ws 0%Q) * entropy_list (nth i rows []))
               (fun i => wfun ws i * rsum (map (fun k => xlnx (pfun rows i k)) (seq 0 n)) * (- / ln 2))).
    - rewrite (rsum_map_scal_r (- / ln 2)). unfold Rdiv. ring.
    - intros i Hi. rewrite Hl in Hi. destruct (row_at rows n i Hr Hi) as (Hlen & Hnn & _).
      rewrite (entropy_list_idx _ Hnn), Hlen. unfold wfun, pfun, Rdiv. ring. }
  rewrite E1, E2. unfold jsd_abs, Rdiv. ring.
Qed.

(* ------------------------------------------------------------------------------------------ *)
(* 4. the theorems *)

Theorem jsd_nonneg ws rows n : fam_ok ws rows n -> 0 <= jsd_r ws rows n.
Proof.
  intros Hok. rewrite (jsd_r_abs ws rows n Hok). destruct Hok as (Hl & Hw & Hs & Hr).
  assert (Ha : 0 <= jsd_abs (seq 0 (length ws)) (seq 0 n) (wfun ws) (pfun rows)).
  { apply jsd_abs_nonneg.
    - intros i. apply wf_nonneg, Hw.
    - intros i k. apply (pf_nonneg rows n), Hr.
    - apply wf_sum, Hs.
    - intros i Hi. rewrite Hl in Hi. apply pf_sum; assumption. }
  pose proof ln2_pos as H2.
  assert (Hi : 0 < / ln 2) by (apply Rinv_0_lt_compat; exact H2).
  unfold Rdiv. apply Rmult_le_pos; lra.
Qed.

Theorem jsd_le_entropy_weights ws rows n : fam_ok ws rows n -> jsd_r ws rows n <= entropy_list ws.
Proof.
  intros Hok. rewrite (jsd_r_abs ws rows n Hok). destruct Hok as (Hl & Hw & Hs & Hr).
  rewrite (entropy_list_idx ws Hw).
  assert (Ha : jsd_abs (seq 0 (length ws)) (seq 0 n) (wfun ws) (pfun rows)
               <= - rsum (map (fun i => xlnx (wfun ws i)) (seq 0 (length ws)))).
  { apply jsd_abs_le_weights.
    - intros i. apply wf_nonneg, Hw.
    - intros i k. apply (pf_nonneg rows n), Hr.
    - intros i Hi. rewrite Hl in Hi. apply pf_sum; assumption. }
  pose proof ln2_pos as H2.
  assert (Hi : 0 < / ln 2) by (apply Rinv_0_lt_compat; exact H2).
  unfold Rdiv. apply Rmult_le_compat_r; [lra| exact Ha].
Qed.

(* all rows equal: the divergence is 0 *)
Theorem jsd_self ws rows n p0 :
  fam_ok ws rows n -> (forall p, In p rows -> p = p0) -> jsd_r ws rows n = 0.
Proof.
  intros Hok Heq. rewrite (jsd_r_abs ws rows n Hok). destruct Hok as (Hl & Hw & Hs & Hr).
  rewrite (jsd_abs_self _ _ _ _ (wf_sum ws Hs) (fun k => Q2R (nth k p0 0%Q))).
  - unfold Rdiv. ring.
  - intros i k Hi. unfold pfun. rewrite (Heq (nth i rows [])); [reflexivity|].
    apply in_seq in Hi. apply nth_In. lia.
Qed.

(* ------------------------------------------------------------------------------------------ *)
(* 5. non-vacuity *)

Definition ex_ws : list Q := [1#3; 2#3]%Q.
Definition ex_rows : list (list Q) := [[1#2; 1#2; 0]; [0; 1#4; 3#4]]%Q.

Example ex_fam_ok : fam_ok ex_ws ex_rows 3.
Proof.
  unfold fam_ok, ex_ws, ex_rows. split; [reflexivity|]. split; [|split].
  - repeat constructor; discriminate.
  - reflexivity.
  - repeat constructor; try discriminate; reflexivity.
Qed.

Example ex_rows_distinct : nth 0 ex_rows [] <> nth 1 ex_rows [].
Proof. discriminate. Qed.

Example ex_mixture : mixture ex_ws ex_rows 3 = [(1#3) * (1#2) + ((2#3) * 0 + 0);
                                                (1#3) * (1#2) + ((2#3) * (1#4) + 0);
                                                (1#3) * 0 + ((2#3) * (3#4) + 0)]%Q.
Proof. reflexivity. Qed.

Example ex_jsd_bounds : 0 <= jsd_r ex_ws ex_rows 3 <= entropy_list ex_ws.
Proof.
  split; [apply jsd_nonneg| apply jsd_le_entropy_weights]; exact ex_fam_ok.
Qed.

(* the upper bound is attained by rows with disjoint supports: two point masses with weights 1/2 are
   exactly 1 bit apart, the entropy of the weights *)
Lemma plogp_Qeq q q' : (q == q')%Q -> plogp q = plogp q'.
Proof.
  intros E. unfold plogp.
  assert (Hb : Qle_bool q 0 = Qle_bool q' 0).
  { destruct (Qle_bool q 0) eqn:E1, (Qle_bool q' 0) eqn:E2; try reflexivity.
    - apply Qle_bool_iff in E1. rewrite E in E1. apply Qle_bool_iff in E1. congruence.
    - apply Qle_bool_iff in E2. rewrite <- E in E2. apply Qle_bool_iff in E2. congruence. }
  rewrite Hb, (Qeq_eqR _ _ E). reflexivity.
Qed.

Lemma plogp_1 : plogp 1%Q = 0.
Proof.
  unfold plogp. replace (Qle_bool 1 0) with false by reflexivity.
  rewrite Q2R_1. unfold log2. rewrite ln_1. unfold Rdiv. ring.
Qed.

Example ex_disjoint_ok : fam_ok [1#2; 1#2]%Q [[1; 0]; [0; 1]]%Q 2.
Proof.
  unfold fam_ok. split; [reflexivity|]. split; [|split].
  - repeat constructor; discriminate.
  - reflexivity.
  - repeat constructor; try discriminate; reflexivity.
Qed.

Example ex_disjoint_tight :
  jsd_r [1#2; 1#2]%Q [[1; 0]; [0; 1]]%Q 2 = 1 /\ entropy_list [1#2; 1#2]%Q = 1.
Proof.
  split; [|exact entropy_fair_coin].
  unfold jsd_r, mixture, entropy_list. simpl.
  rewrite (plogp_Qeq ((1#2) * 1 + ((1#2) * 0 + 0)) (1#2)) by reflexivity.
  rewrite (plogp_Qeq ((1#2) * 0 + ((1#2) * 1 + 0)) (1#2)) by reflexivity.
  rewrite plogp_half, plogp_1, plogp_0. replace (Q2R (1#2)) with (/ 2) by (unfold Q2R; simpl; lra).
  lra.
Qed.

(* ------------------------------------------------------------------------------------------ *)
(* 6. bridge to the model: C06_Model.jsd denotes jsd_r of the rows read on the union of the keys *)

Definition jsd_keys (ds : list Dist.dist) : list outcome :=
  odedup (concat (map (fun d => keys (d_tbl d)) ds)).
Definition jsd_row (ks : list outcome) (d : Dist.dist) : list Q := map (fun k => get0 k (d_tbl d)) ks.
Definition jsd_rows (ds : list Dist.dist) : list (list Q) := map (jsd_row (jsd_keys ds)) ds.

(* a table read on a duplicate-free list of labels that covers its keys: every stored value is met
   exactly once, every other label reads 0 *)
Lemma get0_cons_ne k0 v0 t k : k <> k0 -> get0 k ((k0, v0) :: t) = get0 k t.
Proof.
  intros Hne. unfold get0. simpl. destruct (oeqb_spec k0 k) as [E|_]; [congruence| reflexivity].
Qed.

Lemma get0_cons_eq k0 v0 t : get0 k0 ((k0, v0) :: t) = v0.
Proof. unfold get0. simpl. rewrite oeqb_refl. reflexivity. Qed.

Lemma rsum_get0 (g : Q -> R) (tbl : pd) : forall ks,
  g 0%Q = 0 -> NoDup (keys tbl) -> NoDup ks -> (forall k, In k (keys tbl) -> In k ks) ->
  rsum (map (fun k => g (get0 k tbl)) ks) = rsum (map (fun kv => g (snd kv)) tbl).
Proof.
  induction tbl as [|[k0 v0] t IH]; intros ks Hg Hnt Hnk Hsub.
  - simpl. rewrite <- (rsum_map_zero ks). apply rsum_map_ext. intros k _. exact Hg.
  - simpl in Hnt. inversion Hnt as [|? ? Hk0 Hnt']; subst.
    destruct (in_split k0 ks (Hsub k0 (or_introl eq_refl))) as (l1 & l2 & ->).
    pose proof (NoDup_remove_1 _ _ _ Hnk) as Hn'.
    pose proof (NoDup_remove_2 _ _ _ Hnk) as Hnot.
    rewrite map_app, rsum_app. simpl. rewrite get0_cons_eq.
    assert (E : rsum (map (fun k => g (get0 k ((k0, v0) :: t))) l1)
                + rsum (map (fun k => g (get0 k ((k0, v0) :: t))) l2)
                = rsum (map (fun k => g (get0 k t)) (l1 ++ l2))).
    { rewrite map_app, rsum_app. f_equal; apply rsum_map_ext; intros k Hk;
        rewrite get0_cons_ne; try reflexivity; intros ->; apply Hnot, in_or_app; auto. }
    rewrite <- (IH (l1 ++ l2) Hg Hnt' Hn').
    + lra.
    + intros k Hk. assert (Hin : In k (l1 ++ k0 :: l2)) by (apply Hsub; right; exact Hk).
      apply in_app_or in Hin. apply in_or_app. destruct Hin as [H|[H|H]]; auto.
      subst. contradiction.
Qed.

(* the pushforward along a map that fixes every key of a duplicate-free table is the table itself *)
Lemma add_to_notin k v acc : ~ In k (keys acc) -> add_to k v acc = acc ++ [(k, v)].
Proof.
  induction acc as [|[k' v'] t IH]; intros Hn; simpl; [reflexivity|].
  destruct (oeqb_spec k' k) as [E|_].
  - exfalso. apply Hn. left. exact E.
  - rewrite IH; [reflexivity|]. intros H. apply Hn. right. exact H.
Qed.

Lemma pushforward_fix (f : outcome -> outcome) (t : pd) :
  NoDup (keys t) -> (forall k, In k (keys t) -> f k = k) -> pushforward f t = t.
Proof.
  intros Hn Hf. unfold pushforward.
  assert (H : forall acc, NoDup (keys (acc ++ t)) ->
              fold_left (fun acc x => add_to (f (fst x)) (snd x) acc) t acc = acc ++ t).
  { revert Hf. clear Hn. induction t as [|[k v] t IH]; intros Hf acc Hnd; simpl.
    - rewrite app_nil_r. reflexivity.
    - rewrite (Hf k (or_introl eq_refl)).
      assert (Hk : ~ In k (keys acc)).
      { unfold keys in Hnd. rewrite map_app in Hnd. simpl in Hnd.
        pose proof (NoDup_remove_2 _ _ _ Hnd) as Hr. intros H. apply Hr, in_or_app. left. exact H. }
      rewrite (add_to_notin k v acc Hk).
      rewrite IH.
      + rewrite <- app_assoc. reflexivity.
      + intros k' Hk'. apply Hf. right. exact Hk'.
      + rewrite <- app_assoc. exact Hnd. }
  apply (H []). exact Hn.
Qed.

Lemma proj_range o : proj (range (length o)) o = o.
Proof. unfold proj, range. apply map_nth_seq. Qed.

(* every stored outcome has one symbol per variable (automatic for Cartesian sample spaces) *)
Definition full_len (d : Dist.dist) : Prop :=
  forall o, In o (keys (d_tbl d)) -> length o = d_nvars d.

Lemma mpmf_all_perm (d : Dist.dist) :
  clean d -> full_len d -> Permutation (mpmf d (range (d_nvars d))) (map snd (d_tbl d)).
Proof.
  intros Hc Hlen.
  assert (HS : Forall (fun i => (i < d_nvars d)%nat) (range (d_nvars d))).
  { apply Forall_forall. intros i Hi. unfold range in Hi. apply in_seq in Hi. lia. }
  pose proof (mpmf_perm d (range (d_nvars d)) Hc HS) as Hp.
  rewrite pushforward_fix in Hp; [exact Hp| |].
  - destruct Hc as ((_ & Hnd & _) & _). exact Hnd.
  - intros k Hk. rewrite <- (Hlen k Hk). apply proj_range.
Qed.

Lemma clean_nodup d : clean d -> NoDup (keys (d_tbl d)).
Proof. intros ((_ & Hnd & _) & _). exact Hnd. Qed.

Lemma entropy_row (d : Dist.dist) (ks : list outcome) :
  clean d -> full_len d -> NoDup ks -> (forall k, In k (keys (d_tbl d)) -> In k ks) ->
  entropy_list (mpmf d (range (d_nvars d))) = entropy_list (jsd_row ks d).
Proof.
  intros Hc Hlen Hnk Hsub.
  rewrite (entropy_perm _ _ (mpmf_all_perm d Hc Hlen)).
  unfold entropy_list, jsd_row. f_equal. rewrite !map_map.
  symmetry. apply (rsum_get0 plogp (d_tbl d) ks plogp_0 (clean_nodup d Hc) Hnk Hsub).
Qed.

Lemma jsd_keys_cover ds d k : In d ds -> In k (keys (d_tbl d)) -> In k (jsd_keys ds).
Proof.
  intros Hd Hk. unfold jsd_keys. apply In_odedup. apply in_concat.
  exists (keys (d_tbl d)). split; [|exact Hk].
  apply in_map_iff. exists d. split; [reflexivity| exact Hd].
Qed.

Lemma jsd_row_nth ks d j : (j < length ks)%nat -> nth j (jsd_row ks d) 0%Q = get0 (nth j ks []) (d_tbl d).
Proof.
  intros Hj. unfold jsd_row.
  rewrite (nth_indep _ 0%Q (get0 [] (d_tbl d))) by (rewrite map_length; exact Hj).
  exact (map_nth (fun k => get0 k (d_tbl d)) ks [] j).
Qed.

Lemma mix_entry_model ks j : (j < length ks)%nat -> forall (ds : list Dist.dist) (ws : list Q),
  map2 (fun w p => (w * nth j p 0)%Q) ws (map (jsd_row ks) ds)
  = map (fun dw : Dist.dist * Q => (snd dw * get0 (nth j ks []) (d_tbl (fst dw)))%Q) (combine ds ws).
Proof.
  intros Hj. induction ds as [|d ds IH]; intros [|w ws]; simpl; try reflexivity.
  rewrite (jsd_row_nth ks d j Hj), IH. reflexivity.
Qed.

Lemma mixture_model (ds : list Dist.dist) (ws : list Q) (ks : list outcome) :
  map (fun k => qsum (map (fun dw : Dist.dist * Q => (snd dw * get0 k (d_tbl (fst dw)))%Q) (combine ds ws))) ks
  = mixture ws (map (jsd_row ks) ds) (length ks).
Proof.
  unfold mixture.
  transitivity (map (fun k => qsum (map (fun dw : Dist.dist * Q => (snd dw * get0 k (d_tbl (fst dw)))%Q)
                                        (combine ds ws)))
                    (map (fun j => nth j ks []) (seq 0 (length ks)))).
  { rewrite map_nth_seq. reflexivity. }
  rewrite map_map. apply map_ext_in. intros j Hj. apply in_seq in Hj.
  rewrite (mix_entry_model ks j) by lia. reflexivity.
Qed.

Lemma weighted_entropies_model (ks : list outcome) : NoDup ks ->
  forall (ds : list Dist.dist) (ws : list Q),
  Forall (fun d => clean d /\ full_len d /\ (forall k, In k (keys (d_tbl d)) -> In k ks)) ds ->
  rsum (map (fun x : Q * list Q => Q2R (fst x) * entropy_list (snd x))
            (map (fun dw : Dist.dist * Q => ((- snd dw)%Q, mpmf (fst dw) (range (d_nvars (fst dw))))) (combine ds ws)))
  = - rsum (map2 (fun w p => Q2R w * entropy_list p) ws (map (jsd_row ks) ds)).
Proof.
  intros Hnk. induction ds as [|d ds IH]; intros [|w ws] Hds; simpl; try lra.
  pose proof (Forall_inv Hds) as (Hc & Hlen & Hsub). pose proof (Forall_inv_tail Hds) as Ht.
  rewrite (IH ws Ht), (entropy_row d ks Hc Hlen Hnk Hsub), Q2R_opp. lra.
Qed.

(* the real denotation of the model's value is jsd_r of the aligned rows *)
Theorem jsd_model_value (ds : list Dist.dist) (ws : list Q) (r : rdata) :
  Forall clean ds -> Forall full_len ds -> jsd ds ws = XVal r ->
  rden r = jsd_r ws (jsd_rows ds) (length (jsd_keys ds)).
Proof.
  intros Hc Hlen Hj. unfold jsd in Hj.
  destruct (negb (Nat.eqb (length ds) (length ws))); [discriminate|].
  injection Hj as <-. cbn [rden]. unfold lincomb. cbn [map rsum fst snd].
  fold (jsd_keys ds). rewrite (mixture_model ds ws (jsd_keys ds)).
  rewrite (weighted_entropies_model (jsd_keys ds)).
  - unfold jsd_r, jsd_rows. rewrite Q2R_1. lra.
  - apply NoDup_odedup.
  - apply Forall_forall. intros d Hd. rewrite Forall_forall in Hc, Hlen.
    split; [exact (Hc d Hd)| split; [exact (Hlen d Hd)|]].
    intros k Hk. exact (jsd_keys_cover ds d k Hd Hk).
Qed.

(* the aligned rows of clean normalised distributions form a weighted family *)
Definition jsd_input_ok (ds : list Dist.dist) (ws : list Q) : Prop :=
  length ds = length ws /\
  Forall (fun q => (0 <= q)%Q) ws /\
  (qsum ws == 1)%Q /\
  Forall (fun d => clean d /\ full_len d /\ (mass (d_tbl d) == 1)%Q) ds.

Lemma get0_nonneg_clean d k : clean d -> (0 <= get0 k (d_tbl d))%Q.
Proof.
  intros (_ & _ & _ & Hpos). unfold get0. destruct (find_key k (d_tbl d)) as [v|] eqn:E; [|apply Qle_refl].
  apply find_key_In in E. rewrite Forall_forall in Hpos. specialize (Hpos _ E). simpl in Hpos.
  apply Qlt_le_weak. eapply Qlt_trans; [apply null_tol_pos| exact Hpos].
Qed.

Lemma jsd_row_ok (d : Dist.dist) (ks : list outcome) :
  clean d -> (mass (d_tbl d) == 1)%Q -> NoDup ks -> (forall k, In k (keys (d_tbl d)) -> In k ks) ->
  row_ok (length ks) (jsd_row ks d).
Proof.
  intros Hc Hm Hnk Hsub. unfold row_ok, jsd_row. split; [apply map_length| split].
  - apply Forall_forall. intros q Hq. apply in_map_iff in Hq as (k & <- & _).
    apply get0_nonneg_clean, Hc.
  - apply eqR_Qeq. rewrite Q2R_qsum, map_map.
    rewrite (rsum_get0 Q2R (d_tbl d) ks Q2R_0 (clean_nodup d Hc) Hnk Hsub).
    rewrite <- (Qeq_eqR _ _ Hm). unfold mass. rewrite Q2R_qsum, map_map. reflexivity.
Qed.

Theorem jsd_rows_fam_ok ds ws :
  jsd_input_ok ds ws -> fam_ok ws (jsd_rows ds) (length (jsd_keys ds)).
Proof.
  intros (Hl & Hw & Hs & Hd). unfold fam_ok, jsd_rows. rewrite map_length.
  split; [symmetry; exact Hl| split; [exact Hw| split; [exact Hs|]]].
  apply Forall_forall. intros p Hp. apply in_map_iff in Hp as (d & <- & Hin).
  rewrite Forall_forall in Hd. destruct (Hd d Hin) as (Hc & _ & Hm).
  apply jsd_row_ok; [exact Hc| exact Hm| apply NoDup_odedup|].
  intros k Hk. exact (jsd_keys_cover ds d k Hin Hk).
Qed.

(* the two bounds for the value of the model *)
Theorem jsd_model_bounds (ds : list Dist.dist) (ws : list Q) (r : rdata) :
  jsd_input_ok ds ws -> jsd ds ws = XVal r -> 0 <= rden r <= entropy_list ws.
Proof.
  intros Hok Hj. pose proof (jsd_rows_fam_ok ds ws Hok) as Hf.
  destruct Hok as (_ & _ & _ & Hd).
  rewrite (jsd_model_value ds ws r).
  - split; [apply jsd_nonneg| apply jsd_le_entropy_weights]; exact Hf.
  - eapply Forall_impl; [|exact Hd]. intros d (Hc & _). exact Hc.
  - eapply Forall_impl; [|exact Hd]. intros d (_ & Hlen & _). exact Hlen.
  - exact Hj.
Qed.

(* non-vacuity of the bridge: two clean distributions on different supports *)
Definition ex_d1 : Dist.dist :=
  mkDist (Cart [[0;1]]%nat) [([0]%nat, (1#2)%Q); ([1]%nat, (1#2)%Q)] true Linear None.
Definition ex_d2 : Dist.dist :=
  mkDist (Cart [[0;1;2]]%nat) [([1]%nat, (1#4)%Q); ([2]%nat, (3#4)%Q)] true Linear None.

Example ex_d1_ok : clean ex_d1 /\ full_len ex_d1 /\ (mass (d_tbl ex_d1) == 1)%Q.
Proof.
  split; [|split; [|reflexivity]].
  - split; [| split; [reflexivity| split; [reflexivity|]]].
    + split; [| split].
      * simpl. repeat constructor; simpl; intuition discriminate.
      * simpl. repeat constructor; simpl; intuition discriminate.
      * intros o Ho. simpl in Ho. destruct Ho as [<-|[<-|[]]]; reflexivity.
    + simpl. repeat constructor.
  - intros o Ho. simpl in Ho. destruct Ho as [<-|[<-|[]]]; reflexivity.
Qed.

Example ex_d2_ok : clean ex_d2 /\ full_len ex_d2 /\ (mass (d_tbl ex_d2) == 1)%Q.
Proof.
  split; [|split; [|reflexivity]].
  - split; [| split; [reflexivity| split; [reflexivity|]]].
    + split; [| split].
      * simpl. repeat constructor; simpl; intuition discriminate.
      * simpl. repeat constructor; simpl; intuition discriminate.
      * intros o Ho. simpl in Ho. destruct Ho as [<-|[<-|[]]]; reflexivity.
    + simpl. repeat constructor.
  - intros o Ho. simpl in Ho. destruct Ho as [<-|[<-|[]]]; reflexivity.
Qed.

Example ex_input_ok : jsd_input_ok [ex_d1; ex_d2] [1#3; 2#3]%Q.
Proof.
  split; [reflexivity|]. split; [repeat constructor; discriminate|]. split; [reflexivity|].
  constructor; [exact ex_d1_ok| constructor; [exact ex_d2_ok| constructor]].
Qed.

Example ex_model_rows :
  jsd_keys [ex_d1; ex_d2] = [[0]; [1]; [2]]%nat /\
  jsd_rows [ex_d1; ex_d2] = [[1#2; 1#2; 0]; [0; 1#4; 3#4]]%Q.
Proof. split; reflexivity. Qed.

Example ex_model_bounds r :
  jsd [ex_d1; ex_d2] [1#3; 2#3]%Q = XVal r -> 0 <= rden r <= entropy_list [1#3; 2#3]%Q.
Proof. apply jsd_model_bounds. exact ex_input_ok. Qed.

Example ex_model_defined : exists r, jsd [ex_d1; ex_d2] [1#3; 2#3]%Q = XVal r.
Proof. eexists. reflexivity. Qed.

Print Assumptions jsd_nonneg.
Print Assumptions jsd_le_entropy_weights.
Print Assumptions jsd_self.
Print Assumptions jsd_model_value.
Print Assumptions jsd_model_bounds.
