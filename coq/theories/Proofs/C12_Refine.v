(* Proofs/C12_Refine.v — the functions of dit/math/sampling.py, as translated from /repo's current source
   (Gen/Sampling_Gen.v, regenerated on every run), compute the hand-written model of C12_Model.v,
   for every pmf and every random number, over any numeric carrier. *)
From Coq Require Import ZArith List String Bool Lia ZifyBool.
From Verif Require Import PyLang C12_Model Sampling_Gen.
Import ListNotations.
Open Scope string_scope.
Open Scope Z_scope.
Open Scope list_scope.

Section Refine.
  Context {T : Type}.
  Variables (add sub mul : T -> T -> T) (ltb leb eqb : T -> T -> bool) (ofZ : Z -> T) (zero : T).
  Hypothesis ofZ0 : ofZ 0 = zero.

  Notation value := (@val T).
  Notation ExecBlock := (@exec_block T add sub mul ltb leb eqb ofZ).
  Notation ExecLoop := (@exec_loop T add sub mul ltb leb eqb ofZ).
  Notation Run := (@run T add sub mul ltb leb eqb ofZ).

  Definition fenv0 : string -> option (value -> option value) := fun _ => None.
  Definition vlist (ps : list T) : list value := map VNum ps.

  Lemma index_vlist ps k : (k < List.length ps)%nat ->
    index (vlist ps) (Z.of_nat k) = Some (VNum (nth k ps zero)).
  Proof.
    intros Hk. unfold index, vlist. rewrite map_length.
    destruct (Z.of_nat k <? 0) eqn:E1; [lia|].
    destruct ((Z.of_nat k <? 0) || (Z.of_nat (List.length ps) <=? Z.of_nat k)) eqn:E2; [lia|].
    rewrite Nat2Z.id, nth_error_map, (nth_error_nth' ps zero Hk). reflexivity.
  Qed.

  (* ---------------------------------------------------------------------------------------- *)
  (* _last_positive *)

  Fixpoint lp_down (ps : list T) (m : nat) : option nat :=
    match m with
    | O => None
    | S k => if ltb zero (nth k ps zero) then Some k else lp_down ps k
    end.

  Definition down (m : nat) : list (list value) := map (fun k => [VInt (Z.of_nat k)]) (rev (seq 0 m)).

  Lemma down_S m : down (S m) = [VInt (Z.of_nat m)] :: down m.
  Proof. unfold down. rewrite seq_S, rev_app_distr. reflexivity. Qed.

  Definition lp_body : list stmt :=
    [SIf (ECmp Gt (EIdx (EVar "pmf") (EVar "i")) (EInt 0)) [SReturn (EVar "i")] []].

  Lemma lp_loop ps : forall m en, (m <= List.length ps)%nat -> get en "pmf" = Some (VArr (vlist ps)) ->
    match lp_down ps m with
    | Some i => ExecLoop fenv0 ["i"] lp_body [] (down m) en = RRet (VInt (Z.of_nat i))
    | None => exists en', ExecLoop fenv0 ["i"] lp_body [] (down m) en = RNorm en' /\
                          get en' "pmf" = Some (VArr (vlist ps))
    end.
  Proof.
    induction m as [|m IH]; intros en Hm Hpmf.
    - cbn. exists en. split; [reflexivity|exact Hpmf].
    - assert (Hstep : ExecLoop fenv0 ["i"] lp_body [] (down (S m)) en =
                      if ltb zero (nth m ps zero) then RRet (VInt (Z.of_nat m))
                      else ExecLoop fenv0 ["i"] lp_body [] (down m) (set "i" (VInt (Z.of_nat m)) en)).
      { rewrite down_S, exec_loop_cons.
        unfold lp_body at 1. cbn [exec_block bind]. rewrite exec_if.
        cbn [eval get set String.eqb Ascii.eqb Bool.eqb]. rewrite Hpmf.
        rewrite index_vlist by lia. cbn [do_cmp num_of]. rewrite ofZ0.
        destruct (ltb zero (nth m ps zero)); reflexivity. }
      cbn [lp_down]. rewrite Hstep.
      destruct (ltb zero (nth m ps zero)); [reflexivity|].
      apply IH; [lia|]. cbn. exact Hpmf.
  Qed.

  Lemma desc_list n : map (fun k => Z.of_nat n - 1 + -1 * Z.of_nat k) (seq 0 n) = map Z.of_nat (rev (seq 0 n)).
  Proof.
    induction n as [|n IH]; [reflexivity|].
    rewrite seq_S at 2. rewrite rev_app_distr. cbn [rev app map seq].
    rewrite <- seq_shift, map_map. f_equal; [lia|].
    rewrite <- IH. apply map_ext. intros k. lia.
  Qed.

  Lemma zrange_down n : zrange (Z.of_nat n - 1) (-1) (-1) = map Z.of_nat (rev (seq 0 n)).
  Proof.
    unfold zrange. cbn [Z.eqb Z.ltb Z.compare Z.opp].
    replace (Z.to_nat ((Z.of_nat n - 1 - -1 + 1 - 1) / 1)) with n by (rewrite Z.div_1_r; lia).
    apply desc_list.
  Qed.

  Definition lp_value (ps : list T) : Z :=
    match lp_down ps (List.length ps) with Some i => Z.of_nat i | None => Z.of_nat (List.length ps) - 1 end.

  Theorem last_positive_run ps :
    Run fenv0 sampling_last_positive [VArr (vlist ps)] = Some (VInt (lp_value ps)).
  Proof.
    unfold run. cbn [f_params f_body sampling_last_positive List.length Nat.eqb negb bind].
    cbn [exec_block]. rewrite exec_for.
    cbn [iter_vals eval get set String.eqb Ascii.eqb Bool.eqb do_bin].
    unfold vlist at 1. rewrite map_length.
    rewrite zrange_down, map_map.
    change (map (fun x : nat => [VInt (Z.of_nat x)]) (rev (seq 0 (List.length ps)))) with (down (List.length ps)).
    pose proof (lp_loop ps (List.length ps) (set "pmf" (VArr (vlist ps)) []) (le_n _) eq_refl) as H.
    unfold lp_value. fold lp_body.
    destruct (lp_down ps (List.length ps)) as [i|].
    - rewrite H. reflexivity.
    - destruct H as [en' [H1 H2]]. rewrite H1.
      cbn [exec eval do_bin]. rewrite H2. unfold vlist. rewrite map_length. reflexivity.
  Qed.

  (* lp_down is the hand-written last_positive *)
  Lemma lp_down_app l1 l2 m : (m <= List.length l1)%nat -> lp_down (l1 ++ l2) m = lp_down l1 m.
  Proof.
    induction m as [|m IH]; intros Hm; [reflexivity|].
    cbn [lp_down]. rewrite app_nth1 by lia. rewrite IH by lia. reflexivity.
  Qed.

  Lemma last_pos_from_down : forall l2 l1,
    last_pos_from ltb zero l2 (List.length l1) (lp_down l1 (List.length l1)) =
    lp_down (l1 ++ l2) (List.length (l1 ++ l2)).
  Proof.
    induction l2 as [|p l2 IH]; intros l1.
    - rewrite app_nil_r. reflexivity.
    - cbn [last_pos_from].
      replace (l1 ++ p :: l2) with ((l1 ++ [p]) ++ l2) by (rewrite <- app_assoc; reflexivity).
      rewrite <- IH. rewrite app_length. cbn [List.length]. rewrite Nat.add_1_r.
      cbn [lp_down]. rewrite app_nth2 by lia. rewrite Nat.sub_diag. cbn [nth].
      rewrite lp_down_app by lia. reflexivity.
  Qed.

  Lemma lp_value_model ps : ps <> [] -> lp_value ps = Z.of_nat (last_positive ltb zero ps).
  Proof.
    intros Hne. unfold lp_value, last_positive.
    pose proof (last_pos_from_down ps []) as H. cbn [List.length lp_down app] in H. rewrite H.
    destruct (lp_down ps (List.length ps)); [reflexivity|].
    destruct ps; [congruence|]. cbn [List.length Nat.pred]. lia.
  Qed.

  (* ---------------------------------------------------------------------------------------- *)
  (* _sample_discrete__python *)

  Definition lp_sem (v : value) : option value := Run fenv0 sampling_last_positive [v].
  Definition fenv1 (f : string) : option (value -> option value) :=
    if String.eqb f "_last_positive" then Some lp_sem else None.

  Lemma do_bin_add_num tv t p : num_of ofZ tv = Some t -> do_bin add sub mul ofZ PyLang.Add tv (VNum p) = Some (VNum (add t p)).
  Proof. destruct tv; cbn; intros H; inversion H; reflexivity. Qed.

  Definition sd_body : list stmt :=
    [SAssign "total" (EBin PyLang.Add (EVar "total") (EVar "prob"));
     SIf (ECmp Lt (EVar "rand") (EVar "total")) [SReturn (EVar "i")] []].

  Lemma sd_loop u : forall ps i0 tv t en,
    num_of ofZ tv = Some t -> get en "total" = Some tv -> get en "rand" = Some (VNum u) ->
    match scan_from add ltb ps u t i0 with
    | Some i => ExecLoop fenv1 ["i"; "prob"] sd_body [] (enum_from (Z.of_nat i0) (vlist ps)) en = RRet (VInt (Z.of_nat i))
    | None => exists en', ExecLoop fenv1 ["i"; "prob"] sd_body [] (enum_from (Z.of_nat i0) (vlist ps)) en = RNorm en' /\ get en' "pmf" = get en "pmf"
    end.
  Proof.
    induction ps as [|p ps IH]; intros i0 tv t en Hnum Htot Hrand.
    - cbn. exists en. split; reflexivity.
    - assert (Hstep : ExecLoop fenv1 ["i"; "prob"] sd_body [] (enum_from (Z.of_nat i0) (vlist (p :: ps))) en =
                      if ltb u (add t p) then RRet (VInt (Z.of_nat i0))
                      else ExecLoop fenv1 ["i"; "prob"] sd_body [] (enum_from (Z.of_nat (S i0)) (vlist ps))
                             (set "total" (VNum (add t p)) (set "prob" (VNum p) (set "i" (VInt (Z.of_nat i0)) en)))).
      { cbn [vlist map enum_from]. rewrite exec_loop_cons.
        unfold sd_body at 1. cbn [exec_block bind]. rewrite exec_assign.
        cbn [eval get set String.eqb Ascii.eqb Bool.eqb].
        rewrite Htot. rewrite (do_bin_add_num _ _ _ Hnum).
        rewrite exec_if. cbn [eval get set String.eqb Ascii.eqb Bool.eqb]. rewrite Hrand.
        cbn [do_cmp num_of].
        replace (Z.of_nat i0 + 1) with (Z.of_nat (S i0)) by lia.
        destruct (ltb u (add t p)); reflexivity. }
      cbn [scan_from]. rewrite Hstep.
      destruct (ltb u (add t p)); [reflexivity|].
      specialize (IH (S i0) (VNum (add t p)) (add t p)
                     (set "total" (VNum (add t p)) (set "prob" (VNum p) (set "i" (VInt (Z.of_nat i0)) en)))
                     eq_refl eq_refl).
      cbn [get set String.eqb Ascii.eqb Bool.eqb] in IH. specialize (IH Hrand).
      exact IH.
  Qed.

  Definition sample_value (ps : list T) (u : T) : Z :=
    match scan add ltb zero ps u with Some i => Z.of_nat i | None => lp_value ps end.

  Theorem sample_discrete_run ps u :
    Run fenv1 sampling_sample_discrete_python [VArr (vlist ps); VNum u] = Some (VInt (sample_value ps u)).
  Proof.
    unfold run. cbn [f_params f_body sampling_sample_discrete_python List.length Nat.eqb negb bind].
    cbn [exec_block]. rewrite exec_assign. cbn [eval]. rewrite exec_for.
    cbn [iter_vals eval get set String.eqb Ascii.eqb Bool.eqb].
    pose proof (sd_loop u ps 0 (VInt 0) zero
                  (set "total" (VInt 0) (set "rand" (VNum u) (set "pmf" (VArr (vlist ps)) [])))) as H.
    cbn [num_of] in H. rewrite ofZ0 in H. specialize (H eq_refl eq_refl eq_refl).
    unfold sample_value, scan. fold sd_body. change (Z.of_nat 0) with 0 in H.
    destruct (scan_from add ltb ps u zero 0) as [i|].
    - rewrite H. reflexivity.
    - destruct H as [en' [H1 H2]]. rewrite H1.
      rewrite exec_return. cbn [eval]. rewrite H2. cbn [get set String.eqb Ascii.eqb Bool.eqb fenv1].
      unfold lp_sem. rewrite last_positive_run. reflexivity.
  Qed.

  Corollary sample_discrete_model ps u : ps <> [] ->
    Run fenv1 sampling_sample_discrete_python [VArr (vlist ps); VNum u] =
    Some (VInt (Z.of_nat (sample1 add ltb zero ps u))).
  Proof.
    intros Hne. rewrite sample_discrete_run. unfold sample_value, sample1.
    destruct (scan add ltb zero ps u); [reflexivity|]. rewrite lp_value_model by exact Hne. reflexivity.
  Qed.

  (* ---------------------------------------------------------------------------------------- *)
  (* _samples_discrete__python *)

  Definition up (j0 r : nat) : list (list value) := map (fun k => [VInt (Z.of_nat k)]) (seq j0 r).

  Lemma zrange_up n : zrange 0 (Z.of_nat n) 1 = map Z.of_nat (seq 0 n).
  Proof.
    unfold zrange. cbn [Z.eqb Z.ltb Z.compare].
    replace (Z.to_nat ((Z.of_nat n - 0 + 1 - 1) / 1)) with n by (rewrite Z.div_1_r; lia).
    apply map_ext. intros k. lia.
  Qed.

  Lemma skipn_cons_nth (l : list T) j : (j < List.length l)%nat -> skipn j l = nth j l zero :: skipn (S j) l.
  Proof.
    revert j; induction l as [|x l IH]; intros j Hj; [cbn in Hj; lia|].
    destruct j as [|j]; [reflexivity|]. cbn [skipn nth]. apply IH. cbn in Hj. lia.
  Qed.

  Lemma replace_nth_app (l1 : list value) x tl v :
    replace_nth (l1 ++ x :: tl) (List.length l1) v = l1 ++ v :: tl.
  Proof. induction l1 as [|y l1 IH]; [reflexivity|]. cbn. rewrite IH. reflexivity. Qed.

  Lemma firstn_S_nth (l : list T) i : (i < List.length l)%nat -> firstn (S i) l = firstn i l ++ [nth i l zero].
  Proof.
    revert i; induction l as [|x l IH]; intros i Hi; [cbn in Hi; lia|].
    destruct i as [|i]; [reflexivity|].
    change (x :: firstn (S i) l = x :: (firstn i l ++ [nth i l zero])). f_equal. apply IH. cbn in Hi. lia.
  Qed.

  Definition inner_body : list stmt :=
    [SAssign "total" (EBin PyLang.Add (EVar "total") (EIdx (EVar "pmf") (EVar "j")));
     SIf (ECmp Lt (EVar "rand") (EVar "total")) [SSetIdx "out" (EVar "i") (EVar "j"); SBreak] []].
  Definition inner_else : list stmt := [SSetIdx "out" (EVar "i") (ECall1 "_last_positive" (EVar "pmf"))].
  Definition outer_body : list stmt :=
    [SAssign "rand" (EIdx (EVar "rands") (EVar "i")); SAssign "total" (EInt 0);
     SFor ["j"] (IRange (EInt 0) (EVar "n") (EInt 1)) inner_body inner_else].

  Definition keeps (en en' : @env T) : Prop :=
    get en' "pmf" = get en "pmf" /\ get en' "rands" = get en "rands" /\ get en' "n" = get en "n".

  Lemma setidx_in_range (o : list value) i : (i < List.length o)%nat ->
    (let n := Z.of_nat (List.length o) in
     let j := if Z.of_nat i <? 0 then Z.of_nat i + n else Z.of_nat i in
     ((j <? 0) || (n <=? j), Z.to_nat j)) = (false, i).
  Proof.
    intros Hi. cbv zeta. destruct (Z.of_nat i <? 0) eqn:E; [lia|].
    f_equal; [lia|apply Nat2Z.id].
  Qed.

  Lemma in_loop ps u i : forall r j0 tv t o en,
    (j0 + r = List.length ps)%nat -> (i < List.length o)%nat ->
    num_of ofZ tv = Some t -> get en "total" = Some tv ->
    get en "pmf" = Some (VArr (vlist ps)) -> get en "out" = Some (VArr o) ->
    get en "i" = Some (VInt (Z.of_nat i)) -> get en "rand" = Some (VNum u) ->
    exists en', ExecLoop fenv1 ["j"] inner_body inner_else (up j0 r) en = RNorm en' /\ keeps en en' /\
      get en' "out" = Some (VArr (replace_nth o i
        (VInt (match scan_from add ltb (skipn j0 ps) u t j0 with Some k => Z.of_nat k | None => lp_value ps end)))).
  Proof.
    induction r as [|r IH]; intros j0 tv t o en Hlen Hi Hnum Htot Hpmf Hout Hi' Hrand.
    - cbn [up seq map]. rewrite exec_loop_nil.
      unfold inner_else. cbn [exec_block]. rewrite exec_setidx.
      cbn [eval]. rewrite Hout, Hi', Hpmf. cbn [fenv1 String.eqb Ascii.eqb Bool.eqb].
      unfold lp_sem. rewrite last_positive_run.
      pose proof (setidx_in_range o i Hi) as Hs. cbv zeta in Hs. cbv zeta.
      injection Hs as Hs1 Hs2. rewrite Hs1, Hs2.
      eexists. split; [reflexivity|]. split; [repeat split; reflexivity|].
      cbn [get set String.eqb Ascii.eqb Bool.eqb].
      rewrite skipn_all2 by lia. reflexivity.
    - assert (Hj : (j0 < List.length ps)%nat) by lia.
      cbn [up seq map]. rewrite exec_loop_cons.
      unfold inner_body at 1. cbn [exec_block bind]. rewrite exec_assign.
      cbn [eval get set String.eqb Ascii.eqb Bool.eqb]. rewrite Htot, Hpmf.
      rewrite index_vlist by exact Hj. rewrite (do_bin_add_num _ _ _ Hnum).
      rewrite exec_if. cbn [eval get set String.eqb Ascii.eqb Bool.eqb]. rewrite Hrand.
      cbn [do_cmp num_of]. rewrite (skipn_cons_nth ps j0 Hj). cbn [scan_from].
      destruct (ltb u (add t (nth j0 ps zero))).
      + cbn [exec_block]. rewrite exec_setidx.
        cbn [eval get set String.eqb Ascii.eqb Bool.eqb]. rewrite Hout, Hi'.
        pose proof (setidx_in_range o i Hi) as Hs. cbv zeta in Hs. cbv zeta.
        injection Hs as Hs1 Hs2. rewrite Hs1, Hs2. rewrite exec_break.
        eexists. split; [reflexivity|]. split; [repeat split; reflexivity|]. reflexivity.
      + cbn [exec_block].
        specialize (IH (S j0) (VNum (add t (nth j0 ps zero))) (add t (nth j0 ps zero)) o
                       (set "total" (VNum (add t (nth j0 ps zero))) (set "j" (VInt (Z.of_nat j0)) en))).
        cbn [get set String.eqb Ascii.eqb Bool.eqb] in IH.
        destruct (IH ltac:(lia) Hi eq_refl eq_refl Hpmf Hout Hi' Hrand) as [en' [H1 [H2 H3]]].
        exists en'. split; [exact H1|]. split; [|exact H3].
        destruct H2 as [A [B C]]. repeat split; assumption.
  Qed.

  Definition fval (ps : list T) (u : T) : value := VInt (sample_value ps u).

  Lemma out_loop ps us : forall r i0 tl en,
    (i0 + r = List.length us)%nat -> List.length tl = r ->
    get en "pmf" = Some (VArr (vlist ps)) -> get en "rands" = Some (VArr (vlist us)) ->
    get en "n" = Some (VInt (Z.of_nat (List.length ps))) ->
    get en "out" = Some (VArr (map (fval ps) (firstn i0 us) ++ tl)) ->
    exists en', ExecLoop fenv1 ["i"] outer_body [] (up i0 r) en = RNorm en' /\
                get en' "out" = Some (VArr (map (fval ps) us)).
  Proof.
    induction r as [|r IH]; intros i0 tl en Hlen Htl Hpmf Hrands Hn Hout.
    - cbn [up seq map]. rewrite exec_loop_nil. cbn [exec_block]. exists en. split; [reflexivity|].
      destruct tl; [|discriminate]. rewrite app_nil_r in Hout.
      rewrite firstn_all2 in Hout by lia. exact Hout.
    - assert (Hi : (i0 < List.length us)%nat) by lia.
      destruct tl as [|x tl]; [discriminate|]. cbn [List.length] in Htl.
      cbn [up seq map]. rewrite exec_loop_cons.
      unfold outer_body at 1. cbn [exec_block bind]. rewrite exec_assign.
      cbn [eval get set String.eqb Ascii.eqb Bool.eqb]. rewrite Hrands.
      rewrite index_vlist by exact Hi. rewrite exec_assign. cbn [eval]. rewrite exec_for.
      cbn [iter_vals eval get set String.eqb Ascii.eqb Bool.eqb]. rewrite Hn.
      rewrite zrange_up, map_map.
      change (map (fun x0 : nat => [VInt (Z.of_nat x0)]) (seq 0 (List.length ps))) with (up 0 (List.length ps)).
      set (en1 := set "total" (VInt 0) (set "rand" (VNum (nth i0 us zero)) (set "i" (VInt (Z.of_nat i0)) en))).
      destruct (in_loop ps (nth i0 us zero) i0 (List.length ps) 0%nat (VInt 0) zero
                        (map (fval ps) (firstn i0 us) ++ x :: tl) en1) as [en' [H1 [[K1 [K2 K3]] H3]]].
      + lia.
      + rewrite app_length, map_length, firstn_length. cbn [List.length]. lia.
      + cbn [num_of]. rewrite ofZ0. reflexivity.
      + reflexivity.
      + exact Hpmf.
      + exact Hout.
      + reflexivity.
      + reflexivity.
      + fold inner_body inner_else. rewrite H1.
        apply (IH (S i0) tl en'); [lia|lia| | | |].
        * rewrite K1. exact Hpmf.
        * rewrite K2. exact Hrands.
        * rewrite K3. exact Hn.
        * rewrite H3. cbn [skipn]. fold (scan add ltb zero ps (nth i0 us zero)).
          fold (sample_value ps (nth i0 us zero)).
          replace i0 with (List.length (map (fval ps) (firstn i0 us))) at 2
            by (rewrite map_length, firstn_length; lia).
          rewrite replace_nth_app. rewrite (firstn_S_nth us i0 Hi), map_app, <- app_assoc. reflexivity.
  Qed.

  Theorem samples_discrete_run ps us :
    Run fenv1 sampling_samples_discrete_python [VArr (vlist ps); VArr (vlist us); VNone] =
    Some (VArr (map (fval ps) us)).
  Proof.
    unfold run. cbn [f_params f_body sampling_samples_discrete_python List.length Nat.eqb negb bind].
    cbn [exec_block]. rewrite exec_assign. cbn [eval get set String.eqb Ascii.eqb Bool.eqb].
    rewrite exec_if. cbn [eval get set String.eqb Ascii.eqb Bool.eqb].
    cbn [exec_block]. rewrite exec_alloc. cbn [eval get set String.eqb Ascii.eqb Bool.eqb].
    assert (Hl : forall l : list T, List.length (vlist l) = List.length l) by (intros; apply map_length).
    rewrite !Hl.
    destruct (Z.of_nat (List.length us) <? 0) eqn:E; [lia|]. rewrite Nat2Z.id.
    rewrite exec_assign. cbn [eval get set String.eqb Ascii.eqb Bool.eqb].
    rewrite exec_for. cbn [iter_vals eval get set String.eqb Ascii.eqb Bool.eqb].
    rewrite zrange_up, map_map, ?Hl.
    change (map (fun x : nat => [VInt (Z.of_nat x)]) (seq 0 (List.length us))) with (up 0 (List.length us)).
    fold inner_body inner_else. fold outer_body.
    match goal with |- context [ExecLoop fenv1 ["i"] outer_body [] _ ?en] =>
      destruct (out_loop ps us (List.length us) 0%nat (repeat VNone (List.length us)) en) as [en' [H1 H2]] end.
    - lia.
    - apply repeat_length.
    - cbn [get set String.eqb Ascii.eqb Bool.eqb]. unfold vlist. reflexivity.
    - cbn [get set String.eqb Ascii.eqb Bool.eqb]. unfold vlist. reflexivity.
    - cbn [get set String.eqb Ascii.eqb Bool.eqb]. rewrite ?Hl. reflexivity.
    - reflexivity.
    - rewrite H1. rewrite exec_return. cbn [eval]. rewrite H2. reflexivity.
  Qed.

  (* the array _samples_discrete__python returns is, entry by entry, the hand-written model *)
  Corollary samples_discrete_model ps us : ps <> [] ->
    Run fenv1 sampling_samples_discrete_python [VArr (vlist ps); VArr (vlist us); VNone] =
    Some (VArr (map (fun u => VInt (Z.of_nat (sample1 add ltb zero ps u))) us)).
  Proof.
    intros Hne. rewrite samples_discrete_run. do 2 f_equal. apply map_ext. intros u.
    unfold fval, sample_value, sample1.
    destruct (scan add ltb zero ps u); [reflexivity|]. rewrite lp_value_model by exact Hne. reflexivity.
  Qed.
End Refine.
