(* Proofs/C09_Proofs.v — the concrete mutation machine of Model/C09_Model.v preserves its
   representation invariant and refines the abstract table specification. *)
From Verif Require Import Dist Dist_Proofs C01_Model C09_Model.
From Coq Require Import Permutation.
Open Scope Q_scope.

(* stored keys form a subsequence of the sample-space enumeration *)
Inductive subseq : list outcome -> list outcome -> Prop :=
| ss_nil l : subseq [] l
| ss_take x a b : subseq a b -> subseq (x :: a) (x :: b)
| ss_skip x a b : subseq a b -> subseq a (x :: b).

Definition Inv (d : dist) : Prop :=
  NoDup (ss_enum (d_ss d)) /\ subseq (keys (d_tbl d)) (ss_enum (d_ss d)) /\
  (d_sparse d = false -> keys (d_tbl d) = ss_enum (d_ss d)).

Definition InvS (s : state) : Prop := Forall (fun ob => Inv (o_d ob)) s.

(* ---------- subsequences ------------------------------------------------------------------ *)

Lemma subseq_refl l : subseq l l.
Proof. induction l as [|x l IH]; constructor; exact IH. Qed.

Lemma subseq_In a b x : subseq a b -> In x a -> In x b.
Proof.
  induction 1 as [l | y a b Hs IH | y a b Hs IH]; simpl; intros Hin.
  - contradiction.
  - destruct Hin as [E|Hin]; [left; exact E| right; apply IH, Hin].
  - right; apply IH, Hin.
Qed.

Lemma subseq_NoDup a b : subseq a b -> NoDup b -> NoDup a.
Proof.
  induction 1 as [l | y a b Hs IH | y a b Hs IH]; intros Hn.
  - constructor.
  - inversion Hn as [|y' b' Hy Hb]; subst y' b'. constructor; [| apply IH, Hb].
    intro Hin. apply Hy. eapply subseq_In; eauto.
  - inversion Hn as [|y' b' Hy Hb]; subst y' b'. apply IH, Hb.
Qed.

Lemma subseq_nil_inv a : subseq a [] -> a = [].
Proof. intros H. inversion H; reflexivity. Qed.

Lemma subseq_trans a b c : subseq a b -> subseq b c -> subseq a c.
Proof.
  intros Hab Hbc. revert a Hab.
  induction Hbc as [l | y b c Hs IH | y b c Hs IH]; intros a Hab.
  - apply subseq_nil_inv in Hab. subst a. constructor.
  - inversion Hab as [l' | y' a' b' Hs' | y' a' b' Hs']; subst.
    + constructor.
    + apply ss_take. apply IH, Hs'.
    + apply ss_skip. apply IH, Hs'.
  - apply ss_skip. apply IH, Hab.
Qed.

Lemma subseq_filter (P : outcome -> bool) l : subseq (filter P l) l.
Proof.
  induction l as [|x l IH]; simpl; [constructor|].
  destruct (P x); [apply ss_take| apply ss_skip]; exact IH.
Qed.

(* ---------- keys of updated tables -------------------------------------------------------- *)

Lemma keys_set_key o v t : keys (set_key o v t) = keys t.
Proof.
  unfold keys. induction t as [|[k w] r IH]; simpl; [reflexivity|].
  destruct (oeqb k o); simpl; [reflexivity| rewrite IH; reflexivity].
Qed.

Lemma keys_del_key o t : subseq (keys (del_key o t)) (keys t).
Proof.
  unfold keys. induction t as [|[k w] r IH]; simpl; [constructor|].
  destruct (oeqb k o); simpl; [apply ss_skip, subseq_refl| apply ss_take, IH].
Qed.

Lemma keys_filter_subseq (P : outcome * Q -> bool) t : subseq (keys (filter P t)) (keys t).
Proof.
  unfold keys. induction t as [|[k w] r IH]; simpl; [constructor|].
  destruct (P (k, w)); simpl; [apply ss_take| apply ss_skip]; exact IH.
Qed.

Lemma keys_map_val (f : Q -> Q) t : keys (map (fun kv => (fst kv, f (snd kv))) t) = keys t.
Proof. unfold keys. rewrite map_map. simpl. reflexivity. Qed.

(* ---------- find_key through the updates -------------------------------------------------- *)

Lemma find_key_set_key o k v t :
  find_key o (set_key k v t) =
  if oeqb o k then match find_key k t with Some _ => Some v | None => None end else find_key o t.
Proof.
  induction t as [|[k' w] r IH]; simpl.
  - destruct (oeqb o k); reflexivity.
  - destruct (oeqb_spec k' k) as [E|Hne]; simpl.
    + subst k'. rewrite (oeqb_sym k o). destruct (oeqb o k); reflexivity.
    + destruct (oeqb_spec k' o) as [E|Hne2].
      * subst k'. destruct (oeqb_spec o k) as [E|Hne3]; [contradiction| reflexivity].
      * exact IH.
Qed.

Lemma find_key_snoc o k v t :
  find_key o (t ++ [(k, v)]) =
  match find_key o t with Some w => Some w | None => if oeqb k o then Some v else None end.
Proof.
  induction t as [|[k' w] r IH]; simpl; [reflexivity|].
  destruct (oeqb k' o); [reflexivity| exact IH].
Qed.

Lemma find_key_del_key o k t : NoDup (keys t) ->
  find_key o (del_key k t) = if oeqb o k then None else find_key o t.
Proof.
  induction t as [|[k' w] r IH]; simpl; intros Hn.
  - destruct (oeqb o k); reflexivity.
  - inversion Hn as [|k0 r0 Hk Hr]; subst k0 r0.
    destruct (oeqb_spec k' k) as [E|Hne]; simpl.
    + subst k'. destruct (oeqb_spec o k) as [E|Hne2].
      * subst o. apply find_key_None. exact Hk.
      * destruct (oeqb_spec k o) as [E|Hne3]; [congruence| reflexivity].
    + destruct (oeqb_spec k' o) as [E|Hne2].
      * subst k'. destruct (oeqb_spec o k) as [E|Hne3]; [contradiction| reflexivity].
      * apply IH, Hr.
Qed.

Lemma find_key_map_val (f : Q -> Q) o t :
  find_key o (map (fun kv => (fst kv, f (snd kv))) t) = option_map f (find_key o t).
Proof.
  induction t as [|[k w] r IH]; simpl; [reflexivity|].
  destruct (oeqb k o); [reflexivity| exact IH].
Qed.

(* ---------- mass seen through the sample space -------------------------------------------- *)

Lemma qsum_get0_nil (l : list outcome) : qsum (map (fun o => get0 o []) l) == 0.
Proof.
  induction l as [|y l IH]; simpl; [reflexivity|].
  rewrite IH. unfold get0; simpl. lra.
Qed.

Lemma qsum_get0_subseq a b : subseq a b -> NoDup b -> forall t, keys t = a ->
  qsum (map (fun o => get0 o t) b) == mass t.
Proof.
  induction 1 as [l | x a b Hs IH | x a b Hs IH]; intros Hnd t Hk.
  - destruct t as [|[k v] r]; [| discriminate Hk].
    rewrite qsum_get0_nil. unfold mass; simpl. reflexivity.
  - destruct t as [|[k v] r]; [discriminate Hk|].
    simpl in Hk. inversion Hk as [[Ek Er]]. subst k.
    inversion Hnd as [|x' b' Hx Hb]; subst x' b'.
    assert (E : map (fun o => get0 o ((x, v) :: r)) b = map (fun o => get0 o r) b).
    { apply map_ext_in. intros o Ho. unfold get0; simpl.
      destruct (oeqb_spec x o) as [E|Hne]; [subst o; contradiction| reflexivity]. }
    cbn [map qsum]. rewrite E. rewrite (IH Hb r Er).
    unfold get0; simpl. rewrite oeqb_refl. unfold mass; simpl. reflexivity.
  - inversion Hnd as [|x' b' Hx Hb]; subst x' b'.
    assert (E : get0 x t = 0).
    { unfold get0. assert (F : find_key x t = None).
      { apply find_key_None. rewrite Hk. intro Hin. apply Hx. eapply subseq_In; eauto. }
      rewrite F. reflexivity. }
    cbn [map qsum]. rewrite E. rewrite (IH Hb t Hk). lra.
Qed.

Lemma a_mass_abs ob : Inv (o_d ob) -> a_mass (abs ob) == mass (d_tbl (o_d ob)).
Proof.
  intros (Hn & Hs & _). unfold a_mass, abs; simpl. rewrite map_map; simpl.
  exact (qsum_get0_subseq _ _ Hs Hn (d_tbl (o_d ob)) eq_refl).
Qed.

(* ---------- lists -------------------------------------------------------------------------- *)

Lemma Forall_upd {A} (P : A -> Prop) s l x : Forall P s -> P x -> Forall P (upd s l x).
Proof.
  intros Hs Hx. revert l. induction Hs as [|y t Hy Ht IH]; intros l; simpl.
  - destruct l; constructor.
  - destruct l as [|j]; constructor; auto.
Qed.

Lemma Forall_nth_error {A} (P : A -> Prop) s l x : Forall P s -> nth_error s l = Some x -> P x.
Proof.
  intros Hs Hn. rewrite Forall_forall in Hs. apply Hs. eapply nth_error_In; eauto.
Qed.

Lemma map_upd {A B} (f : A -> B) s l x : map f (upd s l x) = upd (map f s) l (f x).
Proof.
  revert l; induction s as [|y t IH]; intros l; simpl.
  - destruct l; reflexivity.
  - destruct l as [|j]; simpl; [reflexivity| rewrite IH; reflexivity].
Qed.

Lemma upd_same {A} (s : list A) l x : nth_error s l = Some x -> upd s l x = s.
Proof.
  revert l; induction s as [|y t IH]; intros l; simpl.
  - destruct l; reflexivity.
  - destruct l as [|j]; simpl; intros H.
    + inversion H; reflexivity.
    + rewrite IH by exact H. reflexivity.
Qed.

Lemma upd_length {A} (s : list A) l x : length (upd s l x) = length s.
Proof.
  revert l; induction s as [|y t IH]; intros l; simpl.
  - destruct l; reflexivity.
  - destruct l as [|j]; simpl; [reflexivity| rewrite IH; reflexivity].
Qed.

Lemma nth_error_upd_ne {A} (s : list A) l x j : j <> l -> nth_error (upd s l x) j = nth_error s j.
Proof.
  revert l j; induction s as [|y t IH]; intros l j Hne; simpl.
  - destruct l; reflexivity.
  - destruct l as [|l']; destruct j as [|j']; simpl; try reflexivity.
    + congruence.
    + apply IH. congruence.
Qed.

Lemma nth_error_upd_eq {A} (s : list A) l x y : nth_error s l = Some y -> nth_error (upd s l x) l = Some x.
Proof.
  revert l; induction s as [|z t IH]; intros l; simpl.
  - destruct l; discriminate.
  - destruct l as [|l']; simpl; [reflexivity| apply IH].
Qed.

(* ---------- 1. invariant preservation ------------------------------------------------------ *)

Lemma Inv_nodup_keys d : Inv d -> NoDup (keys (d_tbl d)).
Proof. intros (Hn & Hs & _). eapply subseq_NoDup; eauto. Qed.

Lemma Inv_setitem d k v d' : Inv d -> d_setitem d k v = Some d' -> Inv d'.
Proof.
  intros (Hn & Hs & Hd) H. unfold d_setitem in H.
  destruct (ss_mem (d_ss d) k) eqn:Em; cbn [negb] in H; [| discriminate H].
  inversion H as [E]; clear H E.
  destruct (find_key k (d_tbl d)) as [w|] eqn:Ef; unfold Inv; simpl.
  - rewrite keys_set_key. auto.
  - split; [exact Hn|]. split.
    + rewrite keys_reorder. apply subseq_filter.
    + intros Hsp. exfalso. apply find_key_None in Ef. apply Ef. rewrite (Hd Hsp).
      apply ss_mem_In, Em.
Qed.

Lemma Inv_delitem d k d' : Inv d -> d_delitem d k = Some d' -> Inv d'.
Proof.
  intros (Hn & Hs & Hd) H. unfold d_delitem in H.
  destruct (ss_mem (d_ss d) k) eqn:Em; cbn [negb] in H; [| discriminate H].
  inversion H as [E]; clear H E.
  unfold Inv; simpl. split; [exact Hn|].
  destruct (d_sparse d) eqn:Esp.
  - split; [| discriminate]. eapply subseq_trans; [apply keys_del_key| exact Hs].
  - destruct (find_key k (d_tbl d)) as [w|] eqn:Ef.
    + rewrite keys_set_key. auto.
    + auto.
Qed.

Lemma Inv_make_dense d : Inv d -> Inv (d_make_dense d).
Proof.
  intros (Hn & Hs & Hd). unfold Inv, d_make_dense; simpl. rewrite keys_dense_of.
  split; [exact Hn|]. split; [apply subseq_refl| reflexivity].
Qed.

Lemma Inv_make_sparse d tr : Inv d -> Inv (d_make_sparse d tr).
Proof.
  intros (Hn & Hs & Hd). unfold Inv, d_make_sparse; simpl.
  split; [exact Hn|]. split; [| discriminate].
  destruct tr; [| exact Hs].
  eapply subseq_trans; [apply keys_filter_subseq| exact Hs].
Qed.

Lemma Inv_normalize d : Inv d -> Inv (d_normalize d).
Proof.
  intros (Hn & Hs & Hd). unfold Inv, d_normalize; simpl.
  rewrite (keys_map_val (fun v => Qred (v / mass (d_tbl d)))). auto.
Qed.

Lemma on_obj_Inv s l f :
  InvS s -> (forall ob, Inv (o_d ob) -> Inv (o_d (fst (f ob)))) -> InvS (fst (on_obj s l f)).
Proof.
  intros Hs Hf. unfold on_obj. destruct (nth_error s l) as [ob|] eqn:En; [| exact Hs].
  assert (Hob : Inv (o_d ob)) by (eapply (Forall_nth_error _ s l ob Hs En)).
  specialize (Hf ob Hob). destruct (f ob) as [ob' r]. simpl in *.
  apply Forall_upd; assumption.
Qed.

Theorem step_Inv s o : InvS s -> InvS (fst (step s o)).
Proof.
  intros Hs. destruct o as [l k v | l k | l | l tr | l | l b | l b | l k]; simpl.
  - apply on_obj_Inv; [exact Hs|]. intros ob Hob.
    destruct (d_setitem (o_d ob) k v) as [d'|] eqn:E; simpl; [| exact Hob].
    eapply Inv_setitem; eauto.
  - apply on_obj_Inv; [exact Hs|]. intros ob Hob.
    destruct (d_delitem (o_d ob) k) as [d'|] eqn:E; simpl; [| exact Hob].
    eapply Inv_delitem; eauto.
  - apply on_obj_Inv; [exact Hs|]. intros ob Hob. simpl. apply Inv_make_dense, Hob.
  - apply on_obj_Inv; [exact Hs|]. intros ob Hob. simpl. apply Inv_make_sparse, Hob.
  - apply on_obj_Inv; [exact Hs|]. intros ob Hob. simpl. apply Inv_normalize, Hob.
  - apply on_obj_Inv; [exact Hs|]. intros ob Hob. simpl. exact Hob.
  - destruct (nth_error s l) as [ob|] eqn:En; simpl; [| exact Hs].
    assert (Hob : Inv (o_d ob)) by (eapply (Forall_nth_error _ s l ob Hs En)).
    apply Forall_app. split; [exact Hs|]. constructor; [| constructor].
    simpl. destruct b as [b'|]; exact Hob.
  - apply on_obj_Inv; [exact Hs|]. intros ob Hob. simpl. exact Hob.
Qed.

Fixpoint run (s : state) (ops : list op) : state :=
  match ops with [] => s | o :: r => run (fst (step s o)) r end.

Theorem run_Inv s ops : InvS s -> InvS (run s ops).
Proof.
  revert s; induction ops as [|o r IH]; intros s Hs; simpl; [exact Hs|].
  apply IH, step_Inv, Hs.
Qed.

Lemma history_Inv_gen ops : forall st : state * out, InvS (fst st) ->
  InvS (fst (fold_left (fun st o => (fst (step (fst st) o), snd (step (fst st) o))) ops st)).
Proof.
  induction ops as [|o r IH]; intros st Hs; simpl; [exact Hs|].
  apply IH. simpl. apply step_Inv, Hs.
Qed.

Theorem history_Inv s ops : InvS s ->
  InvS (fst (fold_left (fun st o => (fst (step (fst st) o), snd (step (fst st) o))) ops (s, OUnit))).
Proof. intros Hs. apply history_Inv_gen. exact Hs. Qed.

(* ---------- 2. refinement ------------------------------------------------------------------ *)

Definition op_target (o : op) : option nat :=
  match o with
  | SetItem l _ _ | DelItem l _ | MakeDense l | MakeSparse l _ | Normalize l | SetBase l _ | Rand l _ => Some l
  | Copy _ _ => None
  end.

Definition a_on (s : astate) (l : nat) (g : atbl -> option atbl * out) : astate * out :=
  match nth_error s l with
  | None => (s, OUnit)
  | Some a => match g a with (Some a', r) => (upd s l a', r) | (None, r) => (s, r) end
  end.

Lemma a_step_a_on s o l : op_target o = Some l -> a_step s o = a_on s l (fun a => a_step1 a o).
Proof.
  intros H. destruct o; simpl in H; inversion H; subst; unfold a_step, a_on;
    (destruct (nth_error s l) as [a|]; [| reflexivity]);
    match goal with |- context [a_step1 a ?o] => destruct (a_step1 a o) as [[a'|] r] end; reflexivity.
Qed.

Lemma cells_eq (en : list outcome) t t' (f : outcome -> option Q -> option Q) :
  (forall o, In o en -> find_key o t' = f o (find_key o t)) ->
  map (fun o => (o, find_key o t')) en =
  map (fun c => (fst c, f (fst c) (snd c))) (map (fun o => (o, find_key o t)) en).
Proof.
  intros H. rewrite map_map. apply map_ext_in. intros o Ho. simpl. rewrite (H o Ho). reflexivity.
Qed.

Lemma on_obj_refines (R : out -> out -> Prop) s l f g :
  R OUnit OUnit ->
  InvS s ->
  (forall ob, Inv (o_d ob) ->
     match g (abs ob) with
     | (Some a', r) => abs (fst (f ob)) = a' /\ R (snd (f ob)) r
     | (None, r) => fst (f ob) = ob /\ R (snd (f ob)) r
     end) ->
  map abs (fst (on_obj s l f)) = fst (a_on (map abs s) l g) /\
  R (snd (on_obj s l f)) (snd (a_on (map abs s) l g)).
Proof.
  intros HR Hi H. unfold on_obj, a_on. rewrite nth_error_map.
  destruct (nth_error s l) as [ob|] eqn:En; simpl; [| auto].
  assert (Hob : Inv (o_d ob)) by (eapply (Forall_nth_error _ s l ob Hi En)).
  specialize (H ob Hob). destruct (f ob) as [ob' r'] eqn:Ef. simpl in H.
  destruct (g (abs ob)) as [[a'|] r]; simpl; destruct H as [H1 H2].
  - split; [| exact H2]. rewrite map_upd. rewrite H1. reflexivity.
  - split; [| exact H2]. subst ob'. rewrite upd_same by exact En. reflexivity.
Qed.

Lemma abs_setitem ob k v : Inv (o_d ob) ->
  abs (set_d ob (with_tbl (o_d ob)
         (match find_key k (d_tbl (o_d ob)) with
          | Some _ => set_key k v (d_tbl (o_d ob))
          | None => reorder (d_ss (o_d ob)) (d_tbl (o_d ob) ++ [(k, v)])
          end)))
  = cells_map (fun o c => if oeqb o k then Some v else c) (abs ob).
Proof.
  intros Hi. destruct ob as [[ss t sp b nm] p]. unfold abs, cells_map; simpl. f_equal.
  apply (cells_eq (ss_enum ss) t _ (fun o c => if oeqb o k then Some v else c)).
  intros o Ho. destruct (find_key k t) as [w|] eqn:Ef.
  - rewrite find_key_set_key, Ef. reflexivity.
  - rewrite find_key_reorder.
    assert (Hm : omem o (ss_enum ss) = true) by (apply omem_In, Ho).
    rewrite Hm, find_key_snoc.
    destruct (oeqb_spec o k) as [E|Hne].
    + subst o. rewrite Ef, oeqb_refl. reflexivity.
    + destruct (find_key o t); [reflexivity|].
      destruct (oeqb_spec k o) as [E|Hne2]; [congruence| reflexivity].
Qed.

Lemma abs_delitem ob k : Inv (o_d ob) ->
  abs (set_d ob (with_tbl (o_d ob)
         (if d_sparse (o_d ob) then del_key k (d_tbl (o_d ob))
          else match find_key k (d_tbl (o_d ob)) with
               | Some _ => set_key k 0 (d_tbl (o_d ob))
               | None => d_tbl (o_d ob) end)))
  = cells_map (fun o c => if oeqb o k
                          then (if a_sparse (abs ob) then None
                                else match c with Some _ => Some 0 | None => None end)
                          else c) (abs ob).
Proof.
  intros Hi. pose proof (Inv_nodup_keys _ Hi) as Hnd.
  destruct ob as [[ss t sp b nm] p]. unfold abs, cells_map; simpl in *. f_equal.
  apply (cells_eq (ss_enum ss) t _
           (fun o c => if oeqb o k
                       then (if sp then None else match c with Some _ => Some 0 | None => None end)
                       else c)).
  intros o Ho. destruct sp.
  - apply find_key_del_key, Hnd.
  - destruct (find_key k t) as [w|] eqn:Ef.
    + rewrite find_key_set_key, Ef.
      destruct (oeqb_spec o k) as [E|Hne]; [subst o; rewrite Ef|]; reflexivity.
    + destruct (oeqb_spec o k) as [E|Hne]; [subst o; rewrite Ef|]; reflexivity.
Qed.

Lemma abs_make_dense ob :
  abs (set_d ob (d_make_dense (o_d ob))) =
  let a' := cells_map (fun _ c => match c with Some v => Some v | None => Some 0 end) (abs ob) in
  mkA (a_ss a') (a_cell a') false (a_base a') (a_names a') (a_prng a').
Proof.
  destruct ob as [[ss t sp b nm] p]. unfold abs, cells_map, d_make_dense; simpl. f_equal.
  apply (cells_eq (ss_enum ss) t _ (fun _ c => match c with Some v => Some v | None => Some 0 end)).
  intros o Ho. rewrite find_key_dense_of.
  assert (Hm : omem o (ss_enum ss) = true) by (apply omem_In, Ho).
  rewrite Hm. unfold get0. destruct (find_key o t); reflexivity.
Qed.

Lemma abs_make_sparse ob tr : Inv (o_d ob) ->
  abs (set_d ob (d_make_sparse (o_d ob) tr)) =
  let a' := if tr then cells_map (fun _ c => match c with
                                             | Some v => if is_null (a_base (abs ob)) v then None else Some v
                                             | None => None end) (abs ob) else abs ob in
  mkA (a_ss a') (a_cell a') true (a_base a') (a_names a') (a_prng a').
Proof.
  intros Hi. pose proof (Inv_nodup_keys _ Hi) as Hnd.
  destruct ob as [[ss t sp b nm] p]. unfold abs, cells_map, d_make_sparse; simpl in *.
  destruct tr; simpl; [| reflexivity]. f_equal.
  apply (cells_eq (ss_enum ss) t _
           (fun _ c => match c with Some v => if is_null b v then None else Some v | None => None end)).
  intros o Ho. unfold trim.
  rewrite (find_key_filter (fun v => negb (is_null b v)) t o Hnd).
  destruct (find_key o t) as [w|]; [| reflexivity].
  destruct (is_null b w); reflexivity.
Qed.

Lemma abs_normalize ob : Inv (o_d ob) ->
  abs (set_d ob (d_normalize (o_d ob))) =
  cells_map (fun _ c => match c with Some v => Some (Qred (v / a_mass (abs ob))) | None => None end) (abs ob).
Proof.
  intros Hi. pose proof (a_mass_abs ob Hi) as Hm.
  destruct ob as [[ss t sp b nm] p].
  set (z := a_mass (abs {| o_d := mkDist ss t sp b nm; o_prng := p |})) in *.
  unfold abs, cells_map, d_normalize; simpl in *. f_equal.
  apply (cells_eq (ss_enum ss) t _
           (fun _ c => match c with Some v => Some (Qred (v / z)) | None => None end)).
  intros o Ho. rewrite (find_key_map_val (fun v => Qred (v / mass t))).
  destruct (find_key o t) as [w|]; cbn [option_map]; [| reflexivity].
  f_equal. apply Qred_complete. rewrite Hm. reflexivity.
Qed.

(* The outputs of MakeDense / MakeSparse cannot agree: the concrete machine returns the number of
   outcomes added / removed (ONum), whereas a_step1 returns OUnit for them.  The second conjunct is
   therefore restricted to the other six operations. *)
Theorem refines s o : InvS s ->
  map abs (fst (step s o)) = fst (a_step (map abs s) o) /\
  match o with
  | MakeDense _ | MakeSparse _ _ => True
  | _ => snd (step s o) = snd (a_step (map abs s) o)
  end.
Proof.
  intros Hs. destruct o as [l k v | l k | l | l tr | l | l b | l b | l k].
  - match goal with |- context [a_step ?s0 ?o0] => rewrite (a_step_a_on s0 o0 l eq_refl) end. unfold step.
    apply (on_obj_refines eq); [reflexivity| exact Hs|]. intros ob Hob.
    unfold a_step1, d_setitem. change (a_ss (abs ob)) with (d_ss (o_d ob)).
    destruct (ss_mem (d_ss (o_d ob)) k); cbn [negb fst snd].
    + split; [apply abs_setitem, Hob| reflexivity].
    + split; reflexivity.
  - match goal with |- context [a_step ?s0 ?o0] => rewrite (a_step_a_on s0 o0 l eq_refl) end. unfold step.
    apply (on_obj_refines eq); [reflexivity| exact Hs|]. intros ob Hob.
    unfold a_step1, d_delitem. change (a_ss (abs ob)) with (d_ss (o_d ob)).
    destruct (ss_mem (d_ss (o_d ob)) k); cbn [negb fst snd].
    + split; [apply abs_delitem, Hob| reflexivity].
    + split; reflexivity.
  - match goal with |- context [a_step ?s0 ?o0] => rewrite (a_step_a_on s0 o0 l eq_refl) end. unfold step.
    apply (on_obj_refines (fun _ _ => True)); [exact I| exact Hs|]. intros ob Hob.
    unfold a_step1. cbn [fst snd]. split; [apply abs_make_dense| exact I].
  - match goal with |- context [a_step ?s0 ?o0] => rewrite (a_step_a_on s0 o0 l eq_refl) end. unfold step.
    apply (on_obj_refines (fun _ _ => True)); [exact I| exact Hs|]. intros ob Hob.
    unfold a_step1. cbn [fst snd]. split; [apply abs_make_sparse, Hob| exact I].
  - match goal with |- context [a_step ?s0 ?o0] => rewrite (a_step_a_on s0 o0 l eq_refl) end. unfold step.
    apply (on_obj_refines eq); [reflexivity| exact Hs|]. intros ob Hob.
    unfold a_step1. cbn [fst snd]. split; [apply abs_normalize, Hob| reflexivity].
  - match goal with |- context [a_step ?s0 ?o0] => rewrite (a_step_a_on s0 o0 l eq_refl) end. unfold step.
    apply (on_obj_refines eq); [reflexivity| exact Hs|]. intros ob Hob.
    unfold a_step1. cbn [fst snd]. split; reflexivity.
  - unfold step, a_step. rewrite nth_error_map.
    destruct (nth_error s l) as [ob|]; simpl; [| split; reflexivity].
    split; [| reflexivity]. rewrite map_app. simpl. destruct b as [b'|]; reflexivity.
  - match goal with |- context [a_step ?s0 ?o0] => rewrite (a_step_a_on s0 o0 l eq_refl) end. unfold step.
    apply (on_obj_refines eq); [reflexivity| exact Hs|]. intros ob Hob.
    unfold a_step1. cbn [fst snd]. split; reflexivity.
Qed.

(* ---------- 3. illegal operations change nothing ------------------------------------------- *)

Lemma on_obj_invalid s l f :
  (forall ob, snd (f ob) = OInvalid -> fst (f ob) = ob) ->
  snd (on_obj s l f) = OInvalid -> fst (on_obj s l f) = s.
Proof.
  intros Hf. unfold on_obj. destruct (nth_error s l) as [ob|] eqn:En; simpl; [| discriminate].
  specialize (Hf ob). destruct (f ob) as [ob' r]. simpl in *. intros Hr.
  rewrite (Hf Hr). apply upd_same, En.
Qed.

Theorem invalid_is_noop s o : snd (step s o) = OInvalid -> fst (step s o) = s.
Proof.
  destruct o as [l k v | l k | l | l tr | l | l b | l b | l k]; simpl.
  - apply on_obj_invalid. intros ob. destruct (d_setitem (o_d ob) k v); simpl; [discriminate| reflexivity].
  - apply on_obj_invalid. intros ob. destruct (d_delitem (o_d ob) k); simpl; [discriminate| reflexivity].
  - apply on_obj_invalid. intros ob; simpl; discriminate.
  - apply on_obj_invalid. intros ob; simpl; discriminate.
  - apply on_obj_invalid. intros ob; simpl; discriminate.
  - apply on_obj_invalid. intros ob; simpl; discriminate.
  - destruct (nth_error s l); simpl; discriminate.
  - apply on_obj_invalid. intros ob; simpl; discriminate.
Qed.

(* ---------- 4. frame ----------------------------------------------------------------------- *)

Lemma on_obj_frame s l f j : j <> l -> nth_error (fst (on_obj s l f)) j = nth_error s j.
Proof.
  intros Hne. unfold on_obj. destruct (nth_error s l) as [ob|]; [| reflexivity].
  destruct (f ob) as [ob' r]. simpl. apply nth_error_upd_ne, Hne.
Qed.

Theorem frame s o j : (forall l, op_target o = Some l -> j <> l) -> (j < length s)%nat ->
  nth_error (fst (step s o)) j = nth_error s j.
Proof.
  intros Ht Hj. destruct o as [l k v | l k | l | l tr | l | l b | l b | l k]; simpl in *;
    try (apply on_obj_frame; apply Ht; reflexivity).
  destruct (nth_error s l) as [ob|]; simpl; [| reflexivity].
  apply nth_error_app1, Hj.
Qed.

Lemma on_obj_length s l f : length (fst (on_obj s l f)) = length s.
Proof.
  unfold on_obj. destruct (nth_error s l) as [ob|]; [| reflexivity].
  destruct (f ob) as [ob' r]. simpl. apply upd_length.
Qed.

Theorem step_length s o : (length s <= length (fst (step s o)))%nat.
Proof.
  destruct o as [l k v | l k | l | l tr | l | l b | l b | l k]; simpl;
    try (rewrite on_obj_length; apply Nat.le_refl).
  destruct (nth_error s l) as [ob|]; simpl; [| apply Nat.le_refl].
  rewrite app_length. simpl. lia.
Qed.

(* ---------- 5. a copy is identical to its source ------------------------------------------- *)

Theorem copy_equal s l ob : nth_error s l = Some ob ->
  nth_error (fst (step s (Copy l None))) (length s) = Some ob.
Proof.
  intros H. simpl. rewrite H. simpl.
  rewrite nth_error_app2 by apply Nat.le_refl. rewrite Nat.sub_diag.
  destruct ob as [d p]. reflexivity.
Qed.

(* ---------- 6. static data never change ---------------------------------------------------- *)

Definition static_of (ob : obj) := (d_ss (o_d ob), d_names (o_d ob)).

Lemma on_obj_static s l f j :
  (forall ob, static_of (fst (f ob)) = static_of ob) ->
  option_map static_of (nth_error (fst (on_obj s l f)) j) = option_map static_of (nth_error s j).
Proof.
  intros Hf. destruct (Nat.eq_dec j l) as [E|Hne]; [| rewrite on_obj_frame by exact Hne; reflexivity].
  subst j. unfold on_obj. destruct (nth_error s l) as [ob|] eqn:En; [| simpl; rewrite En; reflexivity].
  specialize (Hf ob). destruct (f ob) as [ob' r]. simpl in *.
  rewrite (nth_error_upd_eq s l ob' ob En). simpl. rewrite Hf. reflexivity.
Qed.

Theorem static_fields_constant s o j : (j < length s)%nat ->
  option_map (fun ob => (d_ss (o_d ob), d_names (o_d ob))) (nth_error (fst (step s o)) j)
  = option_map (fun ob => (d_ss (o_d ob), d_names (o_d ob))) (nth_error s j).
Proof.
  intros Hj. change (fun ob => (d_ss (o_d ob), d_names (o_d ob))) with static_of.
  destruct o as [l k v | l k | l | l tr | l | l b | l b | l k]; simpl.
  - apply on_obj_static. intros ob. unfold d_setitem.
    destruct (negb (ss_mem (d_ss (o_d ob)) k)); reflexivity.
  - apply on_obj_static. intros ob. unfold d_delitem.
    destruct (negb (ss_mem (d_ss (o_d ob)) k)); reflexivity.
  - apply on_obj_static. intros ob. reflexivity.
  - apply on_obj_static. intros ob. reflexivity.
  - apply on_obj_static. intros ob. reflexivity.
  - apply on_obj_static. intros ob. reflexivity.
  - destruct (nth_error s l) as [ob|]; simpl; [| reflexivity].
    rewrite nth_error_app1 by exact Hj. reflexivity.
  - apply on_obj_static. intros ob. reflexivity.
Qed.

(* ---------- 7. non-vacuity ------------------------------------------------------------------ *)

Definition ex_d : dist :=
  mkDist (Cart [[0;1];[0;1]]%nat) [([0;0]%nat, 1#2); ([1;1]%nat, 1#2)] true Linear None.

Example ex_Inv : Inv ex_d.
Proof.
  unfold Inv, ex_d; simpl. split; [| split; [| discriminate]].
  - repeat constructor; simpl; intuition discriminate.
  - apply ss_take, ss_skip, ss_skip, ss_take, ss_nil.
Qed.

Example ex_InvS : InvS [mkObj ex_d (0%nat, 0%nat)].
Proof. constructor; [exact ex_Inv| constructor]. Qed.

Example ex_run :
  map (fun ob => (d_tbl (o_d ob), d_sparse (o_d ob)))
      (run [mkObj ex_d (0%nat, 0%nat)]
           [SetItem 0 [0;1]%nat (1#4); DelItem 0 [0;0]%nat; MakeDense 0; Normalize 0])
  = [([([0;0]%nat, 0); ([0;1]%nat, 1#3); ([1;0]%nat, 0); ([1;1]%nat, 2#3)], false)].
Proof. vm_compute. reflexivity. Qed.

Example ex_run_Inv :
  InvS (run [mkObj ex_d (0%nat, 0%nat)]
            [SetItem 0 [0;1]%nat (1#4); DelItem 0 [0;0]%nat; MakeDense 0; Normalize 0]).
Proof. apply run_Inv, ex_InvS. Qed.

Print Assumptions refines.
Print Assumptions step_Inv.
