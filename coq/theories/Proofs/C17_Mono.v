(* Proofs/C17_Mono.v — redundancies of "min type" (I_mmi; I_min per target value) on the redundancy lattice:
   the minimum is a greatest lower bound, the redundancy is monotone along the lattice order (Williams-Beer
   monotonicity), equals the set function on single-set nodes (self-redundancy), is bounded by every member,
   non-negative, symmetric in the node, and all this passes to non-negatively weighted sums (the I_min shape). *)
From Verif Require Import Info.
From Verif Require Import Measures C16_Model C17_Model C17_Proofs.
From Coq Require Import Permutation.
Open Scope Q_scope.

(* ---------- 1./2. qmin_list is the greatest lower bound of a non-empty list ---------------------- *)

Lemma qmin_list_cons2 x y r :
  qmin_list (x :: y :: r) = if Qle_bool x (qmin_list (y :: r)) then x else qmin_list (y :: r).
Proof. reflexivity. Qed.

Lemma qmin_list_le l x : In x l -> qmin_list l <= x.
Proof.
  induction l as [|a r IH]; intros Hin; [destruct Hin|].
  destruct r as [|b r].
  - destruct Hin as [->|[]]. simpl. apply Qle_refl.
  - rewrite qmin_list_cons2.
    destruct (Qle_bool a (qmin_list (b :: r))) eqn:E.
    + apply Qle_bool_iff in E.
      destruct Hin as [->|Hin]; [apply Qle_refl|].
      eapply Qle_trans; [exact E| apply IH; exact Hin].
    + destruct Hin as [->|Hin]; [|apply IH; exact Hin].
      destruct (Qlt_le_dec (qmin_list (b :: r)) x) as [Hlt|Hle].
      * apply Qlt_le_weak. exact Hlt.
      * apply Qle_bool_iff in Hle. rewrite Hle in E. discriminate.
Qed.

Lemma qmin_list_in l : l <> [] -> exists x, In x l /\ qmin_list l = x.
Proof.
  induction l as [|a r IH]; intros Hne; [congruence|].
  destruct r as [|b r].
  - exists a. split; [left; reflexivity| reflexivity].
  - rewrite qmin_list_cons2.
    destruct (Qle_bool a (qmin_list (b :: r))).
    + exists a. split; [left; reflexivity| reflexivity].
    + destruct IH as [x [Hx Hq]]; [discriminate|].
      exists x. split; [right; exact Hx| exact Hq].
Qed.

Lemma qmin_list_in_eq l : l <> [] -> In (qmin_list l) l.
Proof. intros Hne. destruct (qmin_list_in l Hne) as [x [Hx Hq]]. rewrite Hq. exact Hx. Qed.

Lemma qmin_list_glb l c : l <> [] -> (forall x, In x l -> c <= x) -> c <= qmin_list l.
Proof. intros Hne H. apply H. apply qmin_list_in_eq. exact Hne. Qed.

(* the minimum depends on the list only through its members *)
Lemma qmin_list_incl l l' : l' <> [] -> (forall x, In x l' -> In x l) -> qmin_list l <= qmin_list l'.
Proof.
  intros Hne Hincl. apply qmin_list_glb; [exact Hne|].
  intros x Hx. apply qmin_list_le. apply Hincl. exact Hx.
Qed.

Lemma qmin_list_perm l l' : Permutation l l' -> qmin_list l == qmin_list l'.
Proof.
  intros HP. destruct l as [|a r].
  - apply Permutation_nil in HP. subst l'. reflexivity.
  - assert (Hne' : l' <> []).
    { intros ->. apply Permutation_sym in HP. apply Permutation_nil in HP. discriminate. }
    apply Qle_antisym.
    + apply qmin_list_incl; [exact Hne'|].
      intros x Hx. eapply Permutation_in; [apply Permutation_sym; exact HP| exact Hx].
    + apply qmin_list_incl; [discriminate|].
      intros x Hx. eapply Permutation_in; [exact HP| exact Hx].
Qed.

(* ---------- monotone set functions -------------------------------------------------------------- *)

Definition mi_monotone (mi : list nat -> Q) : Prop := forall A B, ssubset A B = true -> mi A <= mi B.

(* a monotone set function respects set equality *)
Lemma mi_monotone_seq_set mi A B : mi_monotone mi -> seq_set A B = true -> mi A == mi B.
Proof.
  intros Hm H. unfold seq_set in H. apply andb_true_iff in H. destruct H as [H1 H2].
  apply Qle_antisym; apply Hm; assumption.
Qed.

(* ---------- 5. bounded by every member; non-negativity ------------------------------------------- *)

Theorem mmi_red_le_member mi n A : In A n -> mmi_red mi n <= mi A.
Proof. intros HA. unfold mmi_red. apply qmin_list_le. apply in_map. exact HA. Qed.

(* the redundancy is attained at some member of the node *)
Theorem mmi_red_attained mi n : n <> [] -> exists A, In A n /\ mmi_red mi n = mi A.
Proof.
  intros Hne. unfold mmi_red.
  destruct (qmin_list_in (map mi n)) as [x [Hx Hq]].
  { destruct n; [congruence| discriminate]. }
  apply in_map_iff in Hx. destruct Hx as [A [HA HAn]].
  exists A. split; [exact HAn| rewrite Hq; symmetry; exact HA].
Qed.

Theorem mmi_red_glb mi n c : n <> [] -> (forall A, In A n -> c <= mi A) -> c <= mmi_red mi n.
Proof.
  intros Hne H. destruct (mmi_red_attained mi n Hne) as [A [HA Hq]]. rewrite Hq. apply H. exact HA.
Qed.

Theorem mmi_red_nonneg mi n : (forall A, 0 <= mi A) -> n <> [] -> 0 <= mmi_red mi n.
Proof. intros H0 Hne. apply mmi_red_glb; [exact Hne|]. intros A _. apply H0. Qed.

(* only the members of the node need to be non-negative; and the empty node has value 0 *)
Theorem mmi_red_nonneg_in mi n : (forall A, In A n -> 0 <= mi A) -> 0 <= mmi_red mi n.
Proof.
  intros H0. destruct n as [|A r]; [simpl; apply Qle_refl|].
  apply mmi_red_glb; [discriminate| exact H0].
Qed.

(* ---------- 3. monotonicity along the lattice order (Williams-Beer) ---------------------------- *)

Theorem mmi_red_monotone mi a b :
  (forall A B, ssubset A B = true -> mi A <= mi B) ->
  a <> [] -> b <> [] -> nle a b = true -> mmi_red mi a <= mmi_red mi b.
Proof.
  intros Hm _ Hb Hle. apply mmi_red_glb; [exact Hb|].
  intros B HB. destruct (proj1 (nle_spec a b) Hle B HB) as [A [HA HAB]].
  eapply Qle_trans; [apply mmi_red_le_member; exact HA| apply Hm; exact HAB].
Qed.

(* ---------- 4. self-redundancy and the top ------------------------------------------------------ *)

Theorem mmi_red_single mi A : mmi_red mi [A] = mi A.
Proof. reflexivity. Qed.

Theorem mmi_red_is_single mi n : is_single n = true -> exists A, n = [A] /\ mmi_red mi n = mi A.
Proof.
  unfold is_single. intros H. destruct n as [|A [|B r]]; try discriminate.
  exists A. split; reflexivity.
Qed.

Theorem mmi_red_top mi k : mmi_red mi (top_node k) = mi (range k).
Proof. reflexivity. Qed.

(* for a monotone mi the redundancy of every node over k sources is at most the top value mi (range k) *)
Theorem mmi_red_le_top mi k n :
  (forall A B, ssubset A B = true -> mi A <= mi B) ->
  n <> [] -> (forall A, In A n -> forall i, In i A -> (i < k)%nat) ->
  mmi_red mi n <= mi (range k).
Proof.
  intros Hm Hne Hlt. rewrite <- (mmi_red_top mi k).
  apply mmi_red_monotone; [exact Hm| exact Hne| discriminate| apply nle_top; assumption].
Qed.

(* ---------- 6. symmetry: the node only matters as a set ------------------------------------------ *)

Theorem mmi_red_perm mi n n' : Permutation n n' -> mmi_red mi n == mmi_red mi n'.
Proof. intros HP. unfold mmi_red. apply qmin_list_perm. apply Permutation_map. exact HP. Qed.

(* stronger: same members (with any multiplicities) *)
Theorem mmi_red_same_members mi n n' :
  n <> [] -> (forall A, In A n <-> In A n') -> mmi_red mi n == mmi_red mi n'.
Proof.
  intros Hne Hiff.
  assert (Hne' : n' <> []).
  { destruct n as [|A r]; [congruence|]. intros ->. apply (proj1 (Hiff A)). left. reflexivity. }
  apply Qle_antisym.
  - apply mmi_red_glb; [exact Hne'|]. intros A HA. apply mmi_red_le_member. apply Hiff. exact HA.
  - apply mmi_red_glb; [exact Hne|]. intros A HA. apply mmi_red_le_member. apply Hiff. exact HA.
Qed.

(* for a monotone mi, nodes equal in the lattice (nle both ways, e.g. node_eqb) have equal redundancy *)
Theorem mmi_red_nle_antisym mi a b :
  (forall A B, ssubset A B = true -> mi A <= mi B) ->
  a <> [] -> b <> [] -> nle a b = true -> nle b a = true -> mmi_red mi a == mmi_red mi b.
Proof.
  intros Hm Ha Hb Hab Hba. apply Qle_antisym; apply mmi_red_monotone; assumption.
Qed.

(* ---------- 7. non-negatively weighted sums (the I_min shape) ------------------------------------ *)

Lemma qsum_map_le {T} (f g : T -> Q) (ts : list T) :
  (forall t, In t ts -> f t <= g t) -> qsum (map f ts) <= qsum (map g ts).
Proof.
  induction ts as [|t ts IH]; intros H.
  - simpl. apply Qle_refl.
  - simpl. apply Qplus_le_compat.
    + apply H. left. reflexivity.
    + apply IH. intros t' Ht'. apply H. right. exact Ht'.
Qed.

Theorem weighted_red_monotone {T} (ts : list T) (p : T -> Q) (r : T -> node -> Q) a b :
  (forall t, In t ts -> 0 <= p t) ->
  (forall t, In t ts -> r t a <= r t b) ->
  qsum (map (fun t => p t * r t a) ts) <= qsum (map (fun t => p t * r t b) ts).
Proof.
  intros Hp Hr. apply qsum_map_le. intros t Ht.
  rewrite (Qmult_comm (p t) (r t a)), (Qmult_comm (p t) (r t b)).
  apply Qmult_le_compat_r; [apply Hr; exact Ht| apply Hp; exact Ht].
Qed.

Theorem imin_red_monotone {T} (ts : list T) (p : T -> Q) (s : T -> list nat -> Q) a b :
  (forall t, In t ts -> 0 <= p t) ->
  (forall t, In t ts -> forall A B, ssubset A B = true -> s t A <= s t B) ->
  a <> [] -> b <> [] -> nle a b = true ->
  qsum (map (fun t => p t * mmi_red (s t) a) ts) <= qsum (map (fun t => p t * mmi_red (s t) b) ts).
Proof.
  intros Hp Hs Ha Hb Hle.
  apply (weighted_red_monotone ts p (fun t => mmi_red (s t)) a b); [exact Hp|].
  intros t Ht. apply mmi_red_monotone; [apply Hs; exact Ht| exact Ha| exact Hb| exact Hle].
Qed.

(* the weighted sum is also non-negative, bounded by each member, and equals the weighted sum of the
   set functions on a single-set node *)
Theorem imin_red_nonneg {T} (ts : list T) (p : T -> Q) (s : T -> list nat -> Q) n :
  (forall t, In t ts -> 0 <= p t) ->
  (forall t, In t ts -> forall A, In A n -> 0 <= s t A) ->
  0 <= qsum (map (fun t => p t * mmi_red (s t) n) ts).
Proof.
  intros Hp Hs. apply qsum_nonneg. apply Forall_forall. intros x Hx.
  apply in_map_iff in Hx. destruct Hx as [t [<- Ht]].
  apply Qmult_le_0_compat; [apply Hp; exact Ht|].
  apply mmi_red_nonneg_in. apply Hs. exact Ht.
Qed.

Theorem imin_red_le_member {T} (ts : list T) (p : T -> Q) (s : T -> list nat -> Q) n A :
  (forall t, In t ts -> 0 <= p t) -> In A n ->
  qsum (map (fun t => p t * mmi_red (s t) n) ts) <= qsum (map (fun t => p t * s t A) ts).
Proof.
  intros Hp HA. apply qsum_map_le. intros t Ht.
  rewrite (Qmult_comm (p t) (mmi_red (s t) n)), (Qmult_comm (p t) (s t A)).
  apply Qmult_le_compat_r; [apply mmi_red_le_member; exact HA| apply Hp; exact Ht].
Qed.

Theorem imin_red_single {T} (ts : list T) (p : T -> Q) (s : T -> list nat -> Q) A :
  qsum (map (fun t => p t * mmi_red (s t) [A]) ts) = qsum (map (fun t => p t * s t A) ts).
Proof. reflexivity. Qed.

Print Assumptions qmin_list_le.
Print Assumptions qmin_list_in.
Print Assumptions qmin_list_glb.
Print Assumptions mmi_red_le_member.
Print Assumptions mmi_red_nonneg.
Print Assumptions mmi_red_single.
Print Assumptions mmi_red_top.
Print Assumptions mmi_red_perm.
Print Assumptions imin_red_monotone.
Print Assumptions mmi_red_monotone.
