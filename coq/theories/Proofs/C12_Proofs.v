(* Proofs/C12_Proofs.v — inverse-CDF scan over Q: the scan returns the unique index whose exact
   cumulative interval contains u, never an outcome of probability zero, and the fall-back of the
   repaired code returns the last outcome of positive probability. *)
From Verif Require Import Prelude C12_Model.
From Coq Require Import Lqa.
Open Scope Q_scope.

Definition nonneg (ps : list Q) := Forall (fun p => 0 <= p) ps.

Local Notation qltb := (fun a b : Q => negb (Qle_bool b a)).
Local Notation qscan_from := (@scan_from Q Qplus qltb).
Local Notation qlast_pos_from := (@last_pos_from Q qltb 0).

(* ------------------------------------------------------------------------------------------ *)
(* helpers *)

Lemma Qle_bool_false a b : Qle_bool a b = false -> b < a.
Proof. intros H. apply Qnot_le_lt. intro H0. apply Qle_bool_iff in H0. congruence. Qed.

Lemma qltb_true a b : negb (Qle_bool b a) = true <-> a < b.
Proof.
  destruct (Qle_bool b a) eqn:E; simpl; split; intros H; try discriminate; try reflexivity.
  - apply Qle_bool_iff in E. lra.
  - apply Qle_bool_false in E. exact E.
Qed.

Lemma cum_0 ps : cum ps 0 = 0.
Proof. destruct ps; reflexivity. Qed.

Lemma cum_cons p t j : cum (p :: t) (S j) = p + cum t j.
Proof. reflexivity. Qed.

Lemma cum_nil i : cum [] i = 0.
Proof. destruct i; reflexivity. Qed.

Lemma cum_S ps : forall i, cum ps (S i) == cum ps i + nth i ps 0.
Proof.
  induction ps as [|p t IH]; intros i.
  - rewrite !cum_nil. destruct i; simpl; lra.
  - destruct i as [|i].
    + rewrite cum_cons, !cum_0. simpl. lra.
    + rewrite !cum_cons. simpl nth. specialize (IH i). lra.
Qed.

Lemma nth_nonneg ps : nonneg ps -> forall i, 0 <= nth i ps 0.
Proof.
  induction 1 as [|x l Hx Hl IH]; intros [|i]; simpl; try lra.
  apply IH.
Qed.

Lemma cum_nonneg ps : nonneg ps -> forall i, 0 <= cum ps i.
Proof.
  induction 1 as [|x l Hx Hl IH]; intros [|i]; simpl; try lra.
  specialize (IH i). lra.
Qed.

Lemma cum_mono ps : nonneg ps -> forall i j, (i <= j)%nat -> cum ps i <= cum ps j.
Proof.
  intros Hn i j Hle. induction Hle as [|m Hle IH]; [lra|].
  pose proof (cum_S ps m). pose proof (nth_nonneg ps Hn m). lra.
Qed.

(* ------------------------------------------------------------------------------------------ *)
(* 1. the returned index's interval contains u *)

Lemma scan_from_interval ps : forall u total k i, nonneg ps -> total <= u ->
  qscan_from ps u total k = Some i ->
  exists j, i = (k + j)%nat /\ (j < length ps)%nat /\
            total + cum ps j <= u /\ u < total + cum ps (S j).
Proof.
  induction ps as [|p t IH]; intros u total k i Hn Hle Hs; simpl in Hs; [discriminate|].
  inversion Hn as [|? ? Hp Ht]; subst.
  destruct (Qle_bool (total + p) u) eqn:E; simpl in Hs.
  - apply Qle_bool_iff in E. apply IH in Hs; auto.
    destruct Hs as [j [-> [Hj [H1 H2]]]].
    exists (S j). rewrite !cum_cons. simpl length. repeat split; try lia; lra.
  - apply Qle_bool_false in E. inversion Hs; subst.
    exists 0%nat. rewrite cum_cons, !cum_0. simpl length. repeat split; try lia; lra.
Qed.

Theorem scan_interval ps u i : nonneg ps -> 0 <= u -> qscan ps u = Some i ->
  (i < length ps)%nat /\ cum ps i <= u /\ u < cum ps (S i).
Proof.
  intros Hn Hu Hs. unfold qscan, scan in Hs.
  apply scan_from_interval in Hs; auto.
  destruct Hs as [j [-> [Hj [H1 H2]]]]. simpl. repeat split; try lia; lra.
Qed.

(* 2. never an outcome of probability zero *)

Theorem scan_skips_zero ps u i : nonneg ps -> 0 <= u -> qscan ps u = Some i -> 0 < nth i ps 0.
Proof.
  intros Hn Hu Hs. destruct (scan_interval ps u i Hn Hu Hs) as [_ [H1 H2]].
  pose proof (cum_S ps i). lra.
Qed.

(* 3. uniqueness: the scan returns the index whose interval contains u *)

Lemma scan_from_unique ps : forall u total k i, nonneg ps -> (i < length ps)%nat ->
  total + cum ps i <= u -> u < total + cum ps (S i) ->
  qscan_from ps u total k = Some (k + i)%nat.
Proof.
  induction ps as [|p t IH]; intros u total k i Hn Hi H1 H2; simpl in Hi; [lia|].
  inversion Hn as [|? ? Hp Ht]; subst.
  simpl. destruct i as [|i].
  - rewrite cum_cons, cum_0 in H2.
    destruct (Qle_bool (total + p) u) eqn:E; simpl.
    + apply Qle_bool_iff in E. lra.
    + f_equal. lia.
  - rewrite !cum_cons in *.
    pose proof (cum_nonneg t Ht i) as Hc.
    destruct (Qle_bool (total + p) u) eqn:E; simpl.
    + rewrite (IH u (total + p) (S k) i); auto; try lia; try lra.
      f_equal. lia.
    + apply Qle_bool_false in E. lra.
Qed.

Theorem scan_unique ps u i : nonneg ps -> 0 <= u -> (i < length ps)%nat ->
  cum ps i <= u -> u < cum ps (S i) -> qscan ps u = Some i.
Proof.
  intros Hn Hu Hi H1 H2. unfold qscan, scan.
  rewrite (scan_from_unique ps u 0 0%nat i); auto; lra.
Qed.

(* 4. every outcome of positive probability is reachable, by a u in [0, 1) *)

Theorem scan_positive_reachable ps i : nonneg ps -> (i < length ps)%nat -> 0 < nth i ps 0 ->
  qscan ps (cum ps i) = Some i.
Proof.
  intros Hn Hi Hp. pose proof (cum_S ps i). pose proof (cum_nonneg ps Hn i).
  apply scan_unique; auto; lra.
Qed.

Theorem reachable_u_in_range ps i : nonneg ps -> (i < length ps)%nat -> 0 < nth i ps 0 ->
  cum ps (length ps) <= 1 -> 0 <= cum ps i /\ cum ps i < 1.
Proof.
  intros Hn Hi Hp H1. pose proof (cum_S ps i). pose proof (cum_nonneg ps Hn i).
  assert (cum ps (S i) <= cum ps (length ps)) by (apply cum_mono; auto; lia).
  split; lra.
Qed.

(* 5. totality below the total mass *)

Lemma scan_from_total ps : forall u total k, total <= u -> u < total + cum ps (length ps) ->
  exists i, qscan_from ps u total k = Some i.
Proof.
  induction ps as [|p t IH]; intros u total k Hle Hlt; simpl in Hlt.
  - lra.
  - simpl. destruct (Qle_bool (total + p) u) eqn:E; simpl.
    + apply Qle_bool_iff in E. apply IH; lra.
    + eexists; reflexivity.
Qed.

Theorem scan_total ps u : nonneg ps -> 0 <= u -> u < cum ps (length ps) ->
  exists i, qscan ps u = Some i.
Proof.
  intros _ Hu Hlt. unfold qscan, scan. apply scan_from_total; lra.
Qed.

(* 6. fall-back of the repaired code *)

Theorem sample1_fallback ps u : qscan ps u = None -> qsample1 ps u = qlast_positive ps.
Proof.
  intros H. unfold qsample1, sample1. unfold qscan in H. rewrite H. reflexivity.
Qed.

Lemma last_pos_from_spec ps : forall k best,
  (qlast_pos_from ps k best = best /\ forall j, (j < length ps)%nat -> ~ 0 < nth j ps 0) \/
  (exists j, qlast_pos_from ps k best = Some (k + j)%nat /\ (j < length ps)%nat /\
             0 < nth j ps 0 /\
             forall j', (j < j')%nat -> (j' < length ps)%nat -> ~ 0 < nth j' ps 0).
Proof.
  induction ps as [|p t IH]; intros k best.
  - left. split; [reflexivity| simpl; intros; lia].
  - simpl qlast_pos_from.
    destruct (IH (S k) (if negb (Qle_bool p 0) then Some k else best)) as [[He Hno]|[j [He [Hj [Hp Hlast]]]]].
    + destruct (Qle_bool p 0) eqn:E; simpl in He; simpl negb; cbv iota.
      * left. split; [exact He|]. apply Qle_bool_iff in E.
        intros [|j] Hj; simpl in *; [lra| apply Hno; lia].
      * right. exists 0%nat. apply Qle_bool_false in E.
        split; [rewrite He; f_equal; lia|]. split; [simpl; lia|]. split; [exact E|].
        intros [|j'] H1 H2; simpl in *; [lia| apply Hno; lia].
    + right. exists (S j). split; [rewrite He; f_equal; lia|]. split; [simpl; lia|].
      split; [exact Hp|].
      intros [|j'] H1 H2; simpl in *; [lia| apply Hlast; lia].
Qed.

Theorem last_positive_spec ps : (exists i, (i < length ps)%nat /\ 0 < nth i ps 0) ->
  (qlast_positive ps < length ps)%nat /\ 0 < nth (qlast_positive ps) ps 0 /\
  forall j, (qlast_positive ps < j)%nat -> (j < length ps)%nat -> ~ 0 < nth j ps 0.
Proof.
  intros [i [Hi Hp]]. unfold qlast_positive, last_positive.
  destruct (last_pos_from_spec ps 0%nat None) as [[_ Hno]|[j [He [Hj [Hpj Hlast]]]]].
  - exfalso. exact (Hno i Hi Hp).
  - rewrite He. simpl. auto.
Qed.

Theorem sample1_never_zero ps u : nonneg ps -> 0 <= u ->
  (exists i, (i < length ps)%nat /\ 0 < nth i ps 0) ->
  0 < nth (qsample1 ps u) ps 0.
Proof.
  intros Hn Hu Hex. destruct (qscan ps u) as [i|] eqn:E.
  - pose proof (scan_skips_zero ps u i Hn Hu E) as H.
    unfold qsample1, sample1. unfold qscan in E. rewrite E. exact H.
  - rewrite (sample1_fallback ps u E). apply last_positive_spec. exact Hex.
Qed.

(* 7. generators *)

Lemma firstn_plus {A} (l : list A) : forall n m,
  firstn (n + m) l = firstn n l ++ firstn m (skipn n l).
Proof.
  induction l as [|x l IH]; intros [|n] m; simpl; try reflexivity.
  - destruct m; reflexivity.
  - rewrite IH. reflexivity.
Qed.

Lemma skipn_plus {A} (l : list A) : forall n m,
  skipn (n + m) l = skipn m (skipn n l).
Proof.
  induction l as [|x l IH]; intros [|n] m; simpl; try reflexivity.
  - destruct m; reflexivity.
  - apply IH.
Qed.

Theorem rand_gen_split {T} (sample : list T -> T -> nat) ps st n m :
  rand_gen sample ps st (n + m) =
  (fst (rand_gen sample ps st n) ++ fst (rand_gen sample ps (snd (rand_gen sample ps st n)) m),
   snd (rand_gen sample ps (snd (rand_gen sample ps st n)) m)).
Proof.
  unfold rand_gen. simpl fst. simpl snd.
  rewrite firstn_plus, map_app, skipn_plus. reflexivity.
Qed.

Theorem rand_gen_length {T} (sample : list T -> T -> nat) ps st n : (n <= length st)%nat ->
  length (fst (rand_gen sample ps st n)) = n /\
  length (snd (rand_gen sample ps st n)) = (length st - n)%nat.
Proof.
  intros H. unfold rand_gen. simpl fst. simpl snd.
  rewrite map_length, firstn_length_le by exact H. rewrite skipn_length. split; reflexivity.
Qed.

(* 8. non-vacuity *)

Example ex_scan : qscan [1#4; 0; 1#2; 1#4] (1#4) = Some 2%nat.
Proof. vm_compute; reflexivity. Qed.

Definition ex_ps : list Q := [1#4; 0; 1#2; 1#4].

Example ex_scan_interval :
  (2 < length ex_ps)%nat /\ cum ex_ps 2 <= 1#4 /\ 1#4 < cum ex_ps 3.
Proof.
  unfold ex_ps. apply scan_interval.
  - repeat (apply Forall_cons; [lra|]). apply Forall_nil.
  - lra.
  - exact ex_scan.
Qed.

Example ex_fallback : qsample1 [1#4; 0; 1#2; 0] 1 = 2%nat.
Proof. vm_compute; reflexivity. Qed.

Print Assumptions scan_interval.
Print Assumptions scan_unique.
Print Assumptions sample1_never_zero.
