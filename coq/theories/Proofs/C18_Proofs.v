From Verif Require Import Info.
From Verif Require Import Measures C05_Algebra C05_Merge C18_Model.
From Coq Require Import Lra.
Open Scope R_scope.

Definition hzero (t : list hterm) : bool := match hmerge t with [] => true | _ => false end.
Definition hequiv (a b : list hterm) : bool := hzero (a ++ hneg b).
Definition drop_empty (t : list hterm) : list hterm :=
  filter (fun x => negb (Nat.eqb (length (snd x)) 0)) t.
Definition hequiv0 (a b : list hterm) : bool := hzero (drop_empty (a ++ hneg b)).

Eval vm_compute in partition_atoms 2.
Eval vm_compute in map (fun A => (A, atom_of 2 A, cmi_terms 2 (map (fun a => [a]) A) (ndiff (range 2) A))) (subsets 2).
Eval vm_compute in partition_atoms 3.
