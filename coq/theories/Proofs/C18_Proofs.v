(* Proofs/C18_Proofs.v — information partitions and profiles (C18).
   Identities between formal entropy combinations are decided by computation (hmerge normal form
   of the difference is empty) and lifted to every real set function h through heval_hmerge. *)
From Verif Require Import Info.
From Verif Require Import Measures C05_Algebra C05_Merge C18_Model.
From Coq Require Import Lra.
Open Scope R_scope.

(* ------------------------------------------------------------------------------------------ *)
(* Part 0 — the decision procedure and its soundness *)

Definition hzero (t : list hterm) : bool := match hmerge t with [] => true | _ => false end.

Lemma hzero_heval h t : hzero t = true -> heval h t = 0.
Proof.
  intros Hz. rewrite <- heval_hmerge. unfold hzero in Hz.
  destruct (hmerge t) as [|x r].
  - apply heval_nil.
  - discriminate Hz.
Qed.

Definition hequiv (a b : list hterm) : bool := hzero (a ++ hneg b).

Lemma heval_hneg h t : heval h (hneg t) = - heval h t.
Proof. unfold hneg. rewrite heval_scale, Q2R_m1. ring. Qed.

Lemma hequiv_heval h a b : hequiv a b = true -> heval h a = heval h b.
Proof.
  intros He. apply (hzero_heval h) in He.
  rewrite heval_app, heval_hneg in He. lra.
Qed.

(* the variant that ignores the h [] terms *)
Definition drop_empty (t : list hterm) : list hterm :=
  filter (fun x => negb (Nat.eqb (length (snd x)) 0)) t.

Lemma heval_drop_empty h t : h [] = 0 -> heval h (drop_empty t) = heval h t.
Proof.
  intros H0. induction t as [|[c S] t IH].
  - reflexivity.
  - unfold drop_empty in *. cbn [filter snd].
    destruct S as [|s S]; cbn [length Nat.eqb negb].
    + rewrite heval_cons, IH, H0. ring.
    + rewrite !heval_cons, IH. reflexivity.
Qed.

Definition hequiv0 (a b : list hterm) : bool := hzero (drop_empty (a ++ hneg b)).

Lemma hequiv0_heval h a b : h [] = 0 -> hequiv0 a b = true -> heval h a = heval h b.
Proof.
  intros H0 He. apply (hzero_heval h) in He.
  rewrite (heval_drop_empty h _ H0), heval_app, heval_hneg in He. lra.
Qed.

Lemma Q2R_one : Q2R 1%Q = 1.
Proof. apply RMicromega.Q2R_1. Qed.

Lemma heval_concat h (l : list (list hterm)) : heval h (concat l) = rsum (map (heval h) l).
Proof.
  induction l as [|t l IH].
  - reflexivity.
  - cbn [concat map rsum]. rewrite heval_app, IH. reflexivity.
Qed.

Lemma heval_joint h (S : list nat) : heval h [(1%Q, S); ((-(1))%Q, [])] = h S - h [].
Proof. rewrite !heval_cons, heval_nil, Q2R_one, Q2R_m1. ring. Qed.

(* ------------------------------------------------------------------------------------------ *)
(* Part 1 — the atoms sum to the joint value *)

(* notations, not definitions: the lifted statements must be syntactically the checked ones *)
Local Notation atoms_total n := (concat (map snd (partition_atoms n))).

Lemma atoms_sum_joint_check_2 : hequiv (atoms_total 2) [(1%Q, range 2); ((-(1))%Q, [])] = true.
Proof. vm_compute. reflexivity. Qed.
Lemma atoms_sum_joint_check_3 : hequiv (atoms_total 3) [(1%Q, range 3); ((-(1))%Q, [])] = true.
Proof. vm_compute. reflexivity. Qed.
Lemma atoms_sum_joint_check_4 : hequiv (atoms_total 4) [(1%Q, range 4); ((-(1))%Q, [])] = true.
Proof. vm_compute. reflexivity. Qed.

Theorem atoms_sum_joint_2 h : heval h (concat (map snd (partition_atoms 2))) = h (range 2) - h [].
Proof. rewrite <- heval_joint. apply hequiv_heval, atoms_sum_joint_check_2. Qed.
Theorem atoms_sum_joint_3 h : heval h (concat (map snd (partition_atoms 3))) = h (range 3) - h [].
Proof. rewrite <- heval_joint. apply hequiv_heval, atoms_sum_joint_check_3. Qed.
Theorem atoms_sum_joint_4 h : heval h (concat (map snd (partition_atoms 4))) = h (range 4) - h [].
Proof. rewrite <- heval_joint. apply hequiv_heval, atoms_sum_joint_check_4. Qed.

(* ------------------------------------------------------------------------------------------ *)
(* Part 2 — each atom is the conditional co-information of its variables given all the others *)

Local Notation nonempty_subsets n := (filter (fun A => negb (Nat.eqb (length A) 0)) (subsets n)).

Local Notation atom_cmi n A := (cmi_terms n (map (fun a => [a]) A) (ndiff (range n) A)).

Lemma atom_cmi_check_2 :
  forallb (fun A => hequiv (atom_of 2 A) (atom_cmi 2 A)) (nonempty_subsets 2) = true.
Proof. vm_compute. reflexivity. Qed.
Lemma atom_cmi_check_3 :
  forallb (fun A => hequiv (atom_of 3 A) (atom_cmi 3 A)) (nonempty_subsets 3) = true.
Proof. vm_compute. reflexivity. Qed.
Lemma atom_cmi_check_4 :
  forallb (fun A => hequiv (atom_of 4 A) (atom_cmi 4 A)) (nonempty_subsets 4) = true.
Proof. vm_compute. reflexivity. Qed.

Lemma atom_cmi_lift n h :
  forallb (fun A => hequiv (atom_of n A) (atom_cmi n A)) (nonempty_subsets n) = true ->
  forall A, In A (nonempty_subsets n) -> heval h (atom_of n A) = heval h (atom_cmi n A).
Proof.
  intros Hall A HA. rewrite forallb_forall in Hall.
  apply hequiv_heval, Hall, HA.
Qed.

Theorem atom_is_conditional_coinformation_2 h A :
  In A (filter (fun A => negb (Nat.eqb (length A) 0)) (subsets 2)) ->
  heval h (atom_of 2 A) = heval h (cmi_terms 2 (map (fun a => [a]) A) (ndiff (range 2) A)).
Proof. apply (atom_cmi_lift 2 h atom_cmi_check_2). Qed.
Theorem atom_is_conditional_coinformation_3 h A :
  In A (filter (fun A => negb (Nat.eqb (length A) 0)) (subsets 3)) ->
  heval h (atom_of 3 A) = heval h (cmi_terms 3 (map (fun a => [a]) A) (ndiff (range 3) A)).
Proof. apply (atom_cmi_lift 3 h atom_cmi_check_3). Qed.
(* beyond the requested range *)
Theorem atom_is_conditional_coinformation_4 h A :
  In A (filter (fun A => negb (Nat.eqb (length A) 0)) (subsets 4)) ->
  heval h (atom_of 4 A) = heval h (cmi_terms 4 (map (fun a => [a]) A) (ndiff (range 4) A)).
Proof. apply (atom_cmi_lift 4 h atom_cmi_check_4). Qed.

(* ------------------------------------------------------------------------------------------ *)
(* Part 3 — cover sums recover every (conditional) co-information *)

Definition ndisjoint (a b : list nat) : bool := forallb (fun x => negb (nat_mem x b)) a.

(* one or two non-empty groups (arbitrary, possibly overlapping or equal, subsets of range n) *)
Definition group_lists (n : nat) : list (list (list nat)) :=
  let ne := nonempty_subsets n in
  map (fun g => [g]) ne ++ flat_map (fun g1 => map (fun g2 => [g1; g2]) ne) ne.

(* ... and every conditioning set disjoint from all the groups *)
Definition queries (n : nat) : list (list (list nat) * list nat) :=
  flat_map (fun gs => map (fun cr => (gs, cr))
                          (filter (fun cr => forallb (fun g => ndisjoint g cr) gs) (subsets n)))
           (group_lists n).

Lemma cover_check_2 :
  forallb (fun q => hequiv0 (cover_terms 2 (fst q) (snd q)) (cmi_terms 2 (fst q) (snd q))) (queries 2) = true.
Proof. vm_compute. reflexivity. Qed.
Lemma cover_check_3 :
  forallb (fun q => hequiv0 (cover_terms 3 (fst q) (snd q)) (cmi_terms 3 (fst q) (snd q))) (queries 3) = true.
Proof. vm_compute. reflexivity. Qed.

Lemma cover_check_4 :
  forallb (fun q => hequiv0 (cover_terms 4 (fst q) (snd q)) (cmi_terms 4 (fst q) (snd q))) (queries 4) = true.
Proof. vm_compute. reflexivity. Qed.

Lemma cover_lift n h :
  forallb (fun q => hequiv0 (cover_terms n (fst q) (snd q)) (cmi_terms n (fst q) (snd q))) (queries n) = true ->
  h [] = 0 -> forall gs cr, In (gs, cr) (queries n) ->
  heval h (cover_terms n gs cr) = heval h (cmi_terms n gs cr).
Proof.
  intros Hall H0 gs cr Hq. rewrite forallb_forall in Hall.
  apply (hequiv0_heval h _ _ H0). apply (Hall (gs, cr) Hq).
Qed.

Theorem cover_sum_recovers_2 h gs cr :
  h [] = 0 -> In (gs, cr) (queries 2) -> heval h (cover_terms 2 gs cr) = heval h (cmi_terms 2 gs cr).
Proof. intros H0 Hq. apply (cover_lift 2 h cover_check_2 H0 gs cr Hq). Qed.
Theorem cover_sum_recovers_3 h gs cr :
  h [] = 0 -> In (gs, cr) (queries 3) -> heval h (cover_terms 3 gs cr) = heval h (cmi_terms 3 gs cr).
Proof. intros H0 Hq. apply (cover_lift 3 h cover_check_3 H0 gs cr Hq). Qed.

(* beyond the requested range *)
Theorem cover_sum_recovers_4 h gs cr :
  h [] = 0 -> In (gs, cr) (queries 4) -> heval h (cover_terms 4 gs cr) = heval h (cmi_terms 4 gs cr).
Proof. intros H0 Hq. apply (cover_lift 4 h cover_check_4 H0 gs cr Hq). Qed.

(* non-vacuity of the reference side: co-information is defined (Some) on every query, so
   cmi_terms is never the fallback [] *)
Definition coinfo_defined (n : nat) (q : list (list nat) * list nat) : bool :=
  match coinformation n (fst q) (snd q) with Some _ => true | None => false end.
Example queries_defined_2 : forallb (coinfo_defined 2) (queries 2) = true.
Proof. vm_compute. reflexivity. Qed.
Example queries_defined_3 : forallb (coinfo_defined 3) (queries 3) = true.
Proof. vm_compute. reflexivity. Qed.
Example queries_sizes : (length (queries 2), length (queries 3), length (queries 4)) = (16%nat, 98%nat, 544%nat).
Proof. vm_compute. reflexivity. Qed.

(* ------------------------------------------------------------------------------------------ *)
(* Part 4 — complexity profile *)

Lemma heval_single h (S : list nat) : heval h [(1%Q, S)] = h S.
Proof. rewrite heval_cons, heval_nil, Q2R_one. ring. Qed.

Lemma heval_sum_marginals h n : heval h (sum_marginals n) = rsum (map (fun i => h [i]) (range n)).
Proof.
  unfold heval, sum_marginals. rewrite map_map. f_equal. apply map_ext.
  intros i. cbn [fst snd]. rewrite Q2R_one. ring.
Qed.

Local Notation profile_all n := (concat (map (profile_terms n) (seq 1 n))).

Lemma heval_profile_all h n :
  heval h (profile_all n) = rsum (map (fun k => heval h (profile_terms n k)) (seq 1 n)).
Proof. rewrite heval_concat, map_map. reflexivity. Qed.

Lemma profile_scale1_check_2 : hequiv0 (profile_terms 2 1) [(1%Q, range 2)] = true.
Proof. vm_compute. reflexivity. Qed.
Lemma profile_scale1_check_3 : hequiv0 (profile_terms 3 1) [(1%Q, range 3)] = true.
Proof. vm_compute. reflexivity. Qed.
Lemma profile_scale1_check_4 : hequiv0 (profile_terms 4 1) [(1%Q, range 4)] = true.
Proof. vm_compute. reflexivity. Qed.

Theorem profile_scale1_2 h : h [] = 0 -> heval h (profile_terms 2 1) = h (range 2).
Proof. intros H0. rewrite <- heval_single. apply (hequiv0_heval h _ _ H0), profile_scale1_check_2. Qed.
Theorem profile_scale1_3 h : h [] = 0 -> heval h (profile_terms 3 1) = h (range 3).
Proof. intros H0. rewrite <- heval_single. apply (hequiv0_heval h _ _ H0), profile_scale1_check_3. Qed.
Theorem profile_scale1_4 h : h [] = 0 -> heval h (profile_terms 4 1) = h (range 4).
Proof. intros H0. rewrite <- heval_single. apply (hequiv0_heval h _ _ H0), profile_scale1_check_4. Qed.

Lemma profile_total_check_2 : hequiv0 (profile_all 2) (sum_marginals 2) = true.
Proof. vm_compute. reflexivity. Qed.
Lemma profile_total_check_3 : hequiv0 (profile_all 3) (sum_marginals 3) = true.
Proof. vm_compute. reflexivity. Qed.
Lemma profile_total_check_4 : hequiv0 (profile_all 4) (sum_marginals 4) = true.
Proof. vm_compute. reflexivity. Qed.

Theorem profile_total_2 h : h [] = 0 ->
  rsum (map (fun k => heval h (profile_terms 2 k)) (seq 1 2)) = rsum (map (fun i => h [i]) (range 2)).
Proof.
  intros H0. rewrite <- heval_profile_all, <- heval_sum_marginals.
  apply (hequiv0_heval h _ _ H0), profile_total_check_2.
Qed.
Theorem profile_total_3 h : h [] = 0 ->
  rsum (map (fun k => heval h (profile_terms 3 k)) (seq 1 3)) = rsum (map (fun i => h [i]) (range 3)).
Proof.
  intros H0. rewrite <- heval_profile_all, <- heval_sum_marginals.
  apply (hequiv0_heval h _ _ H0), profile_total_check_3.
Qed.
Theorem profile_total_4 h : h [] = 0 ->
  rsum (map (fun k => heval h (profile_terms 4 k)) (seq 1 4)) = rsum (map (fun i => h [i]) (range 4)).
Proof.
  intros H0. rewrite <- heval_profile_all, <- heval_sum_marginals.
  apply (hequiv0_heval h _ _ H0), profile_total_check_4.
Qed.

(* ------------------------------------------------------------------------------------------ *)
(* Part 5 — entropy-triangle coordinates sum to one *)

Theorem triangle1_sum d : rden (log_alphabets d) <> 0 ->
  rden (triangle1 d 0) + rden (triangle1 d 1) + rden (triangle1 d 2) = 1.
Proof.
  intros HU. unfold triangle1. cbn [rden].
  set (U := rden (log_alphabets d)) in *.
  set (P := lincomb (hdata d (sum_marginals (d_nvars d)))).
  set (V := lincomb (hdata d (opt_terms (residual_entropy (d_nvars d) (singles (d_nvars d)) [])))).
  field. exact HU.
Qed.

Theorem triangle2_sum d :
  let n := d_nvars d in
  let R := RLin (hdata d (opt_terms (residual_entropy n (singles n) []))) in
  let B := RLin (hdata d (opt_terms (dual_total_correlation n (singles n) []))) in
  let T := RLin (hdata d (opt_terms (total_correlation n (singles n) []))) in
  rden R + rden B + rden T <> 0 ->
  rden (triangle2 d 0) + rden (triangle2 d 1) + rden (triangle2 d 2) = 1.
Proof.
  intros n R B T Hs. unfold triangle2. fold n. fold R B T. cbn [rden].
  cbn [rden] in Hs. unfold R, B, T in *. cbn [rden] in *.
  set (r := lincomb (hdata d (opt_terms (residual_entropy n (singles n) [])))) in *.
  set (b := lincomb (hdata d (opt_terms (dual_total_correlation n (singles n) [])))) in *.
  set (t := lincomb (hdata d (opt_terms (total_correlation n (singles n) [])))) in *.
  field. lra.
Qed.

(* ------------------------------------------------------------------------------------------ *)
(* Part 6 — non-vacuity *)

Example partition_atoms_2_value :
  partition_atoms 2 =
  [([0; 1]%nat, [((-(1))%Q, []); (1%Q, [1%nat]); (1%Q, [0%nat]); ((-(1))%Q, [0; 1]%nat)]);
   ([1%nat], [((-(1))%Q, [0%nat]); (1%Q, [0; 1]%nat)]);
   ([0%nat], [((-(1))%Q, [1%nat]); (1%Q, [0; 1]%nat)])].
Proof. vm_compute. reflexivity. Qed.

Example partition_atoms_2_three : length (partition_atoms 2) = 3%nat.
Proof. vm_compute. reflexivity. Qed.

Example partition_atoms_sizes :
  (length (partition_atoms 3), length (partition_atoms 4)) = (7%nat, 15%nat).
Proof. vm_compute. reflexivity. Qed.

(* the shared atom of two variables is the mutual information H(0) + H(1) - H(01) - H() *)
Example atom_01_is_mutual_information :
  hequiv (atom_of 2 [0; 1]%nat)
         [(1%Q, [0%nat]); (1%Q, [1%nat]); ((-(1))%Q, [0; 1]%nat); ((-(1))%Q, [])] = true.
Proof. vm_compute. reflexivity. Qed.

(* the decision procedure does reject wrong identities *)
Example hequiv_rejects :
  hequiv (atom_of 2 [0; 1]%nat) [(1%Q, [0%nat]); (1%Q, [1%nat]); ((-(1))%Q, [0; 1]%nat)] = false
  /\ hequiv0 (atom_of 2 [0%nat]) (atom_of 2 [1%nat]) = false.
Proof. vm_compute. split; reflexivity. Qed.

(* XOR-like reading: for any h with h [] = 0 the shared atom of three variables is the
   co-information, which is negative (-1) when all singles have h = 1, pairs 2 and the triple 2 *)
Example atom_012_xor h :
  h [] = 0 -> h [0%nat] = 1 -> h [1%nat] = 1 -> h [2%nat] = 1 ->
  h [0; 1]%nat = 2 -> h [0; 2]%nat = 2 -> h [1; 2]%nat = 2 -> h [0; 1; 2]%nat = 2 ->
  heval h (atom_of 3 [0; 1; 2]%nat) = -1.
Proof.
  intros H0 H1 H2 H3 H12 H13 H23 H123.
  assert (He : hequiv (atom_of 3 [0; 1; 2]%nat)
            [(1%Q, [0%nat]); (1%Q, [1%nat]); (1%Q, [2%nat]);
             ((-(1))%Q, [0; 1]%nat); ((-(1))%Q, [0; 2]%nat); ((-(1))%Q, [1; 2]%nat);
             (1%Q, [0; 1; 2]%nat); ((-(1))%Q, [])] = true) by (vm_compute; reflexivity).
  rewrite (hequiv_heval h _ _ He). rewrite !heval_cons, heval_nil, Q2R_one, Q2R_m1.
  rewrite H0, H1, H2, H3, H12, H13, H23, H123. ring.
Qed.

Print Assumptions atoms_sum_joint_3.
Print Assumptions cover_sum_recovers_3.
