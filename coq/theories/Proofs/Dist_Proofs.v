(* Proofs/Dist_Proofs.v — lemmas about reorder / trim / dense_of / build / sample spaces,
   shared by C01, C02, C03, C09, C11. *)
From Verif Require Import Dist.
From Coq Require Import Permutation.
Open Scope Q_scope.

(* ---------- membership in Cartesian products ------------------------------------------- *)

Lemma In_cart o alphs : In o (cart alphs) <-> mem_cart o alphs = true.
Proof.
  revert o; induction alphs as [|a r IH]; intros o; simpl.
  - destruct o; simpl; split; intros H; auto; try discriminate.
    + destruct H as [H|[]]; discriminate.
  - rewrite in_flat_map. split.
    + intros [x [Hx Hin]]. apply in_map_iff in Hin as [o' [<- Ho']].
      simpl. apply andb_true_iff. split; [apply nat_mem_In, Hx| apply IH, Ho'].
    + destruct o as [|x o']; [discriminate|]. simpl. intros H.
      apply andb_true_iff in H as [H1 H2]. exists x. split; [apply nat_mem_In, H1|].
      apply in_map. apply IH, H2.
Qed.

Lemma ss_mem_In ss o : ss_mem ss o = true <-> In o (ss_enum ss).
Proof.
  destruct ss as [a|os]; simpl; [symmetry; apply In_cart| apply omem_In].
Qed.

Lemma NoDup_map_cons (x : nat) (l : list outcome) : NoDup l -> NoDup (map (cons x) l).
Proof.
  induction 1 as [|y l Hy Hl IH]; simpl; constructor; auto.
  intro Hin. apply in_map_iff in Hin as [z [E Hz]]. inversion E; subst. contradiction.
Qed.

Lemma NoDup_app_disjoint {A} (l1 l2 : list A) :
  NoDup l1 -> NoDup l2 -> (forall x, In x l1 -> In x l2 -> False) -> NoDup (l1 ++ l2).
Proof.
  induction 1 as [|x l Hx Hl IH]; simpl; intros H2 Hd; [exact H2|].
  constructor.
  - rewrite in_app_iff. intros [H|H]; [contradiction| apply (Hd x); auto].
  - apply IH; [exact H2| intros y Hy1 Hy2; apply (Hd y); auto].
Qed.

Lemma NoDup_cart alphs : Forall (@NoDup nat) alphs -> NoDup (cart alphs).
Proof.
  induction 1 as [|a r Ha Hr IH]; simpl; [constructor; [intros []| constructor]|].
  induction Ha as [|x a Hx Ha IHa]; simpl; [constructor|].
  apply NoDup_app_disjoint; [apply NoDup_map_cons, IH| exact IHa|].
  intros o H1 H2. apply in_map_iff in H1 as [o1 [<- _]].
  apply in_flat_map in H2 as [y [Hy H2]]. apply in_map_iff in H2 as [o2 [E _]].
  inversion E; subst. contradiction.
Qed.

(* ---------- sorting and de-duplication -------------------------------------------------- *)

Lemma oinsert_perm o l : Permutation (oinsert o l) (o :: l).
Proof.
  induction l as [|x t IH]; simpl; [apply Permutation_refl|].
  destruct (ole o x); [apply Permutation_refl|].
  apply perm_trans with (x :: o :: t); [apply perm_skip, IH| apply perm_swap].
Qed.

Lemma osort_perm l : Permutation (osort l) l.
Proof.
  induction l as [|x t IH]; simpl; [constructor|].
  apply perm_trans with (x :: osort t); [apply oinsert_perm| apply perm_skip, IH].
Qed.

Lemma In_osort o l : In o (osort l) <-> In o l.
Proof. split; apply Permutation_in; [apply osort_perm| apply Permutation_sym, osort_perm]. Qed.

Lemma NoDup_osort l : NoDup l -> NoDup (osort l).
Proof. intros H. apply (Permutation_NoDup (Permutation_sym (osort_perm l))), H. Qed.

Lemma odedup_acc_spec seen l :
  NoDup (odedup_acc seen l) /\ (forall o, In o (odedup_acc seen l) <-> In o l /\ ~ In o seen).
Proof.
  revert seen; induction l as [|x t IH]; intros seen; simpl.
  - split; [constructor| intros o; tauto].
  - destruct (omem x seen) eqn:E.
    + destruct (IH seen) as [Hn Hi]. split; [exact Hn|].
      intros o. rewrite Hi. apply omem_In in E. split.
      * intros [H1 H2]; auto.
      * intros [[->|H1] H2]; [contradiction| auto].
    + destruct (IH (x :: seen)) as [Hn Hi]. split.
      * constructor; [| exact Hn]. rewrite Hi. simpl. intros [_ H]. apply H; left; reflexivity.
      * intros o. simpl. rewrite Hi. simpl.
        assert (~ In x seen) by (intro H; apply omem_In in H; congruence).
        split.
        -- intros [->|[H1 H2]]; [auto| split; [auto| intro; apply H2; auto]].
        -- intros [[->|H1] H2]; [auto|].
           destruct (oeqb_spec x o) as [->|Hne]; [auto|].
           right. split; [exact H1| intros [E'|H3]; [congruence| contradiction]].
Qed.

Lemma NoDup_odedup l : NoDup (odedup l).
Proof. apply odedup_acc_spec. Qed.

Lemma In_odedup o l : In o (odedup l) <-> In o l.
Proof. unfold odedup. rewrite (proj2 (odedup_acc_spec [] l)). simpl. tauto. Qed.

(* ---------- well-formed sample spaces ---------------------------------------------------- *)

Definition ss_wf (ss : sspace) : Prop :=
  match ss with Cart a => Forall (@NoDup nat) a | Expl os => NoDup os end.

Lemma ss_wf_NoDup ss : ss_wf ss -> NoDup (ss_enum ss).
Proof. destruct ss; simpl; [apply NoDup_cart| auto]. Qed.

Lemma ss_coalesce_wf idx ss : ss_wf ss -> ss_wf (ss_coalesce idx ss).
Proof.
  destruct ss as [a|os]; simpl; intros H.
  - apply Forall_forall. intros l Hl. apply in_map_iff in Hl as [i [<- _]].
    destruct (Nat.lt_ge_cases i (length a)) as [Hi|Hi].
    + rewrite Forall_forall in H. apply H, nth_In, Hi.
    + rewrite nth_overflow by exact Hi. constructor.
  - apply NoDup_osort, NoDup_odedup.
Qed.

(* projection maps the sample space into the coalesced sample space *)
Lemma mem_cart_proj idx o a :
  mem_cart o a = true -> Forall (fun i => (i < length a)%nat) idx ->
  mem_cart (proj idx o) (map (fun i => nth i a []) idx) = true.
Proof.
  intros Hm Hidx. induction Hidx as [|i idx Hi _ IH]; simpl; [reflexivity|].
  apply andb_true_iff. split; [| exact IH].
  clear IH. revert o a Hm Hi. induction i as [|i IHi]; intros o a Hm Hi.
  - destruct o, a; simpl in *; try discriminate; try lia.
    apply andb_true_iff in Hm as [H _]. exact H.
  - destruct o, a; simpl in *; try discriminate; try lia.
    apply andb_true_iff in Hm as [_ H]. apply IHi; [exact H| lia].
Qed.

Lemma ss_coalesce_mem idx ss o :
  ss_mem ss o = true -> Forall (fun i => (i < ss_len ss)%nat) idx ->
  ss_mem (ss_coalesce idx ss) (proj idx o) = true.
Proof.
  destruct ss as [a|os]; simpl; intros Hm Hidx.
  - apply mem_cart_proj; assumption.
  - apply omem_In, In_osort, In_odedup, in_map. apply omem_In, Hm.
Qed.

(* ---------- find_key / get0 through reorder, trim, dense_of ------------------------------- *)

Lemma find_key_In o d v : find_key o d = Some v -> In (o, v) d.
Proof.
  induction d as [|[k w] t IH]; simpl; [discriminate|].
  destruct (oeqb_spec k o) as [->|Hne]; intros H; [inversion H; auto| right; auto].
Qed.

Lemma find_key_reorder ss t o :
  find_key o (reorder ss t) = if omem o (ss_enum ss) then find_key o t else None.
Proof.
  unfold reorder. induction (ss_enum ss) as [|x l IH]; simpl; [reflexivity|].
  rewrite (oeqb_sym o x).
  destruct (oeqb_spec x o) as [->|Hne]; simpl.
  - destruct (find_key o t) as [v|] eqn:E; simpl.
    + rewrite oeqb_refl. reflexivity.
    + rewrite IH. destruct (omem o l); reflexivity.
  - destruct (find_key x t) as [v|] eqn:E; simpl.
    + destruct (oeqb_spec x o); [contradiction| exact IH].
    + exact IH.
Qed.

Lemma keys_reorder ss t :
  keys (reorder ss t) = filter (fun o => match find_key o t with Some _ => true | None => false end) (ss_enum ss).
Proof.
  unfold reorder, keys. induction (ss_enum ss) as [|x l IH]; simpl; [reflexivity|].
  destruct (find_key x t); simpl; rewrite IH; reflexivity.
Qed.

Lemma NoDup_keys_reorder ss t : NoDup (ss_enum ss) -> NoDup (keys (reorder ss t)).
Proof. intros H. rewrite keys_reorder. apply NoDup_filter, H. Qed.

Lemma keys_filter_sub (P : outcome * Q -> bool) t o : In o (keys (filter P t)) -> In o (keys t).
Proof.
  unfold keys. intros H. apply in_map_iff in H as [x [<- Hx]].
  apply filter_In in Hx as [Hx _]. apply in_map, Hx.
Qed.

Lemma NoDup_keys_filter (P : outcome * Q -> bool) t : NoDup (keys t) -> NoDup (keys (filter P t)).
Proof.
  unfold keys. induction t as [|[k v] r IH]; simpl; intros H; [constructor|].
  inversion H as [|? ? Hk Hr]; subst.
  destruct (P (k, v)); simpl; [constructor; [| apply IH, Hr]| apply IH, Hr].
  intro Hin. apply Hk. apply (keys_filter_sub P r k Hin).
Qed.

Lemma find_key_filter (P : Q -> bool) t o :
  NoDup (keys t) ->
  find_key o (filter (fun x => P (snd x)) t)
  = match find_key o t with Some v => if P v then Some v else None | None => None end.
Proof.
  induction t as [|[k v] r IH]; simpl; intros H; [reflexivity|].
  inversion H as [|? ? Hk Hr]; subst.
  destruct (oeqb_spec k o) as [->|Hne].
  - destruct (P v) eqn:E; simpl; [rewrite oeqb_refl; reflexivity|].
    rewrite IH by exact Hr.
    assert (find_key o r = None) as -> by (apply find_key_None; exact Hk). reflexivity.
  - destruct (P v); simpl; [destruct (oeqb_spec k o); [contradiction|]|]; apply IH, Hr.
Qed.

Lemma find_key_dense_of ss t o :
  find_key o (dense_of ss t) = if omem o (ss_enum ss) then Some (get0 o t) else None.
Proof.
  unfold dense_of. induction (ss_enum ss) as [|x l IH]; simpl; [reflexivity|].
  rewrite (oeqb_sym o x). destruct (oeqb_spec x o) as [->|Hne]; simpl; [reflexivity| exact IH].
Qed.

Lemma keys_dense_of ss t : keys (dense_of ss t) = ss_enum ss.
Proof. unfold keys, dense_of. rewrite map_map. simpl. apply map_id. Qed.

(* the value read back from a built table *)
Theorem get0_build ss t sparse b o :
  NoDup (ss_enum ss) -> omem o (ss_enum ss) = true ->
  get0 o (build ss t sparse b) = get0 o t \/
  (sparse = true /\ is_null b (get0 o t) = true /\ get0 o (build ss t sparse b) = 0).
Proof.
  intros Hnd Hin. unfold build, get0. destruct sparse.
  - unfold trim.
    rewrite (find_key_filter (fun v => negb (is_null b v))) by (apply NoDup_keys_reorder, Hnd).
    rewrite find_key_reorder, Hin.
    destruct (find_key o t) as [v|] eqn:E; [| left; reflexivity].
    destruct (is_null b v) eqn:En; simpl; [right; auto| left; reflexivity].
  - left. rewrite find_key_dense_of, Hin. reflexivity.
Qed.

Theorem keys_build_sub ss t sparse b o : In o (keys (build ss t sparse b)) -> In o (ss_enum ss).
Proof.
  unfold build. destruct sparse.
  - intros H. apply keys_filter_sub in H. rewrite keys_reorder in H. apply filter_In in H. tauto.
  - rewrite keys_dense_of. auto.
Qed.

Theorem NoDup_keys_build ss t sparse b : NoDup (ss_enum ss) -> NoDup (keys (build ss t sparse b)).
Proof.
  intros H. unfold build. destruct sparse.
  - apply NoDup_keys_filter, NoDup_keys_reorder, H.
  - rewrite keys_dense_of. exact H.
Qed.

(* stored outcomes are ordered like the sample space: a filter of its enumeration *)
Lemma filter_filter {A} (P R : A -> bool) l : filter P (filter R l) = filter (fun x => R x && P x) l.
Proof.
  induction l as [|x t IH]; simpl; [reflexivity|].
  destruct (R x); simpl; [destruct (P x); simpl; rewrite IH; reflexivity| exact IH].
Qed.

Theorem keys_build_order ss t sparse b :
  NoDup (ss_enum ss) ->
  keys (build ss t sparse b) = filter (fun o => omem o (keys (build ss t sparse b))) (ss_enum ss).
Proof.
  intros Hnd.
  assert (Hgen: forall l, NoDup l -> forall (P : outcome -> bool),
            filter P l = filter (fun o => omem o (filter P l)) l).
  { intros l Hl P. apply filter_ext_in.
    intros o Ho. destruct (P o) eqn:E.
    - symmetry. apply omem_In, filter_In. auto.
    - symmetry. destruct (omem o (filter P l)) eqn:E2; [| reflexivity].
      apply omem_In, filter_In in E2. destruct E2; congruence. }
  unfold build. destruct sparse.
  - assert (Hk: exists P, keys (trim b (reorder ss t)) = filter P (ss_enum ss)).
    { unfold trim, reorder, keys. induction (ss_enum ss) as [|x l IH]; simpl.
      - exists (fun _ => true). reflexivity.
      - inversion Hnd as [|? ? Hx Hl]; subst. destruct (IH Hl) as [P HP].
        exists (fun o => if oeqb x o then (match find_key x t with Some v => negb (is_null b v) | None => false end) else P o).
        rewrite oeqb_refl.
        assert (Hext: filter (fun o => if oeqb x o then (match find_key x t with Some v => negb (is_null b v) | None => false end) else P o) l = filter P l).
        { apply filter_ext_in. intros o Ho. destruct (oeqb_spec x o) as [->|]; [contradiction| reflexivity]. }
        rewrite Hext.
        destruct (find_key x t) as [v|]; simpl; [destruct (negb (is_null b v)); simpl|]; rewrite HP; reflexivity. }
    destruct Hk as [P HP]. rewrite HP. apply Hgen, Hnd.
  - rewrite keys_dense_of.
    symmetry. rewrite <- (filter_ext_in (fun _ => true)).
    + clear Hnd. induction (ss_enum ss) as [|x l IH]; simpl; [reflexivity| rewrite IH; reflexivity].
    + intros o Ho. symmetry. apply omem_In, Ho.
Qed.

(* a filter of a duplicate-free enumeration is the filter by membership in itself *)
Lemma filter_self_mem (l : list outcome) (P : outcome -> bool) :
  NoDup l -> filter P l = filter (fun o => omem o (filter P l)) l.
Proof.
  intros Hl. apply filter_ext_in.
  intros o Ho. destruct (P o) eqn:E.
  - symmetry. apply omem_In, filter_In. auto.
  - symmetry. destruct (omem o (filter P l)) eqn:E2; [| reflexivity].
    apply omem_In, filter_In in E2. destruct E2; congruence.
Qed.

Lemma keys_reorder_order ss t :
  NoDup (ss_enum ss) ->
  keys (reorder ss t) = filter (fun o => omem o (keys (reorder ss t))) (ss_enum ss).
Proof. intros H. rewrite keys_reorder. apply filter_self_mem, H. Qed.

Lemma get0_reorder ss t o : omem o (ss_enum ss) = true -> get0 o (reorder ss t) = get0 o t.
Proof. intros H. unfold get0. rewrite find_key_reorder, H. reflexivity. Qed.

Lemma find_key_combine (os : list outcome) (vs : list Q) o v :
  NoDup os -> In (o, v) (combine os vs) -> find_key o (combine os vs) = Some v.
Proof.
  revert vs; induction os as [|k os IH]; intros [|w vs] Hn Hin; simpl in *; try contradiction.
  inversion Hn as [|? ? Hk Hn']; subst.
  destruct Hin as [E|Hin].
  - inversion E; subst. rewrite oeqb_refl. reflexivity.
  - destruct (oeqb_spec k o) as [->|Hne].
    + exfalso. apply Hk. apply in_combine_l in Hin. exact Hin.
    + apply IH; assumption.
Qed.

Lemma find_key_notin_combine (os : list outcome) (vs : list Q) o :
  ~ In o os -> find_key o (combine os vs) = None.
Proof.
  intros H. apply find_key_None. intro Hin. apply H.
  unfold keys in Hin. apply in_map_iff in Hin as [[k v] [E Hin]]. simpl in E; subst.
  apply in_combine_l in Hin. exact Hin.
Qed.
