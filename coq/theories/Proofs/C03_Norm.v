(* Proofs/C03_Norm.v — Distribution.condition_on: every conditional row is a normalised
   distribution (C03 extension).  The chain rule per outcome is in C03_Proofs.v; here: the row of
   joint values sums to the marginal, hence dense rows have mass 1 and sparse rows have mass 1 minus
   what trimming removed. *)
From Verif Require Import Dist Dist_Proofs C01_Model C02_Model C02_Proofs C03_Model C03_Proofs.
From Coq Require Import Lqa Lia Permutation.
Open Scope Q_scope.

(* ---------- 0. sums over lists --------------------------------------------------------------- *)

Lemma qsum_perm l l' : Permutation l l' -> qsum l == qsum l'.
Proof. induction 1; simpl; lra. Qed.

Lemma qsum_map_ext_in {A} (f g : A -> Q) l :
  (forall x, In x l -> f x == g x) -> qsum (map f l) == qsum (map g l).
Proof.
  induction l as [|a l IH]; simpl; intros H; [lra|].
  rewrite (H a) by (left; reflexivity). rewrite IH by (intros x Hx; apply H; right; exact Hx). lra.
Qed.

Lemma qsum_filter_zero {A} (f : A -> Q) (p : A -> bool) l :
  (forall x, In x l -> p x = false -> f x == 0) ->
  qsum (map f l) == qsum (map f (filter p l)).
Proof.
  induction l as [|a l IH]; simpl; intros H; [lra|].
  assert (IH': qsum (map f l) == qsum (map f (filter p l)))
    by (apply IH; intros x Hx; apply H; right; exact Hx).
  destruct (p a) eqn:E; simpl; rewrite IH'; [lra|].
  rewrite (H a) by auto. lra.
Qed.

Lemma qsum_scale {A} (f : A -> Q) (k : Q) l :
  qsum (map (fun x => f x / k) l) == qsum (map f l) / k.
Proof.
  induction l as [|a l IH]; simpl; [unfold Qdiv; lra|]. rewrite IH. unfold Qdiv. lra.
Qed.

Lemma NoDup_map_inj_on {A B} (f : A -> B) l :
  NoDup l -> (forall x y, In x l -> In y l -> f x = f y -> x = y) -> NoDup (map f l).
Proof.
  induction 1 as [|a l Ha Hl IH]; simpl; intros Hinj; constructor.
  - intro Hin. apply in_map_iff in Hin as [y [E Hy]].
    assert (y = a) by (apply Hinj; auto). subst. contradiction.
  - apply IH. intros x y Hx Hy. apply Hinj; auto.
Qed.

Lemma find_key_In_nodup (t : pd) o v : NoDup (keys t) -> In (o, v) t -> find_key o t = Some v.
Proof.
  induction t as [|[k w] t IH]; simpl; intros Hn Hin; [contradiction|].
  inversion Hn as [|? ? Hk Hn']; subst.
  destruct Hin as [E|Hin].
  - inversion E; subst. rewrite oeqb_refl. reflexivity.
  - destruct (oeqb_spec k o) as [->|Hne].
    + exfalso. apply Hk. unfold keys. apply in_map_iff. exists (o, v). auto.
    + apply IH; assumption.
Qed.

Lemma get0_In_nodup (t : pd) o v : NoDup (keys t) -> In (o, v) t -> get0 o t = v.
Proof. intros Hn Hin. unfold get0. rewrite (find_key_In_nodup t o v Hn Hin). reflexivity. Qed.

Lemma get0_notin (t : pd) o : ~ In o (keys t) -> get0 o t = 0.
Proof. intros H. unfold get0. apply find_key_None in H. rewrite H. reflexivity. Qed.

(* the regrouping identity: r |-> mk r is a bijection between {r in R | mk r stored in J} and
   {o stored in J | P o} *)
Lemma sum_regroup (J : pd) (R : list outcome) (g mk : outcome -> outcome) (P : outcome -> bool) :
  NoDup (keys J) -> NoDup R ->
  (forall o, In o (keys J) -> P o = true -> In (g o) R /\ mk (g o) = o) ->
  (forall r, In r R -> In (mk r) (keys J) -> P (mk r) = true /\ g (mk r) = r) ->
  qsum (map (fun r => get0 (mk r) J) R) == qsum (map snd (filter (fun x => P (fst x)) J)).
Proof.
  intros HJ HR Ha Hb.
  set (R' := filter (fun r => omem (mk r) (keys J)) R).
  rewrite (qsum_filter_zero (fun r => get0 (mk r) J) (fun r => omem (mk r) (keys J)) R).
  2:{ intros r _ E. rewrite get0_notin; [reflexivity|]. intro H. apply omem_In in H. congruence. }
  fold R'.
  assert (Hperm: Permutation (map mk R') (keys (filter (fun x => P (fst x)) J))).
  { apply NoDup_Permutation.
    - apply NoDup_map_inj_on; [apply NoDup_filter, HR|].
      intros x y Hx Hy E. apply filter_In in Hx as [Hx Hx'], Hy as [Hy Hy'].
      apply omem_In in Hx', Hy'.
      destruct (Hb x Hx Hx') as [_ Ex]. destruct (Hb y Hy Hy') as [_ Ey]. congruence.
    - apply NoDup_keys_filter with (P := fun x => P (fst x)), HJ.
    - intros o. split.
      + intros H. apply in_map_iff in H as [r [<- Hr]]. apply filter_In in Hr as [Hr Hr'].
        apply omem_In in Hr'. destruct (Hb r Hr Hr') as [HP _].
        unfold keys in *. apply in_map_iff in Hr' as [[k v] [Ek Hkv]]. simpl in Ek.
        apply in_map_iff. exists (k, v). split; [exact Ek|]. apply filter_In. split; [exact Hkv|].
        simpl. rewrite Ek. exact HP.
      + intros H. unfold keys in H. apply in_map_iff in H as [[k v] [Ek Hkv]]. simpl in Ek. subst k.
        apply filter_In in Hkv as [Hkv HP]. simpl in HP.
        assert (Hk: In o (keys J)) by (unfold keys; apply in_map_iff; exists (o, v); auto).
        destruct (Ha o Hk HP) as [Hg Hm].
        apply in_map_iff. exists (g o). split; [exact Hm|]. apply filter_In. split; [exact Hg|].
        rewrite Hm. apply omem_In, Hk. }
  rewrite <- (map_map mk (fun o => get0 o J)).
  rewrite (qsum_perm _ _ (Permutation_map (fun o => get0 o J) Hperm)).
  unfold keys. rewrite map_map.
  apply qsum_map_ext_in. intros [k v] Hkv. simpl.
  apply filter_In in Hkv as [Hkv _]. rewrite (get0_In_nodup J k v HJ Hkv). reflexivity.
Qed.

(* ---------- 1. positions, projections and merge ------------------------------------------------ *)

Lemma index_of_spec x l i j :
  index_of x l i = Some j -> (i <= j)%nat /\ (j - i < length l)%nat /\ nth (j - i) l 0%nat = x.
Proof.
  revert i; induction l as [|y t IH]; simpl; intros i H; [discriminate|].
  destruct (Nat.eqb_spec x y) as [->|Hne].
  - inversion H; subst. rewrite Nat.sub_diag. repeat split; lia.
  - destruct (IH _ H) as (H1 & H2 & H3).
    replace (j - i)%nat with (S (j - S i)) by lia. repeat split; try lia; try exact H3.
Qed.

Lemma index_of_In x l i : In x l -> exists j, index_of x l i = Some j.
Proof.
  revert i; induction l as [|y t IH]; simpl; intros i H; [contradiction|].
  destruct (Nat.eqb_spec x y) as [->|Hne]; [eexists; reflexivity|].
  destruct H as [E|H]; [congruence| apply IH, H].
Qed.

Lemma pos_in_spec x l : In x l -> (pos_in x l < length l)%nat /\ nth (pos_in x l) l 0%nat = x.
Proof.
  intros H. unfold pos_in. destruct (index_of_In x l 0 H) as [j E]. rewrite E.
  destruct (index_of_spec _ _ _ _ E) as (_ & H2 & H3). rewrite Nat.sub_0_r in *. auto.
Qed.

Lemma nth_map_lt {A} (f : nat -> A) (l : list nat) p (a : A) :
  (p < length l)%nat -> nth p (map f l) a = f (nth p l 0%nat).
Proof.
  intros H. rewrite (nth_indep _ a (f 0%nat)) by (rewrite map_length; exact H). apply map_nth.
Qed.

Lemma nth_pos_in_proj k I o : In k I -> nth (pos_in k I) (proj I o) 0%nat = nth k o 0%nat.
Proof.
  intros H. destruct (pos_in_spec k I H) as [H1 H2]. unfold proj.
  rewrite nth_map_lt by exact H1. rewrite H2. reflexivity.
Qed.

Lemma merge_proj n cidx idx o0 o1 :
  (forall k, (k < n)%nat -> In k cidx \/ In k idx) ->
  merge n cidx idx (proj cidx o0) (proj idx o1)
  = map (fun k => if nat_mem k cidx then nth k o0 0%nat else nth k o1 0%nat) (range n).
Proof.
  intros Hcov. unfold merge. apply map_ext_in. intros k Hk.
  unfold range in Hk. apply in_seq in Hk.
  destruct (nat_mem k cidx) eqn:E.
  - apply nth_pos_in_proj, nat_mem_In, E.
  - destruct (Hcov k) as [H|H]; [lia| apply nat_mem_In in H; congruence|].
    apply nth_pos_in_proj, H.
Qed.

Lemma map_nth_range (o : outcome) : map (fun k => nth k o 0%nat) (range (length o)) = o.
Proof.
  unfold range. induction o as [|a o IH]; simpl; [reflexivity|].
  f_equal. rewrite <- seq_shift, map_map. simpl. exact IH.
Qed.

Lemma merge_of_projs n cidx idx o :
  (forall k, (k < n)%nat -> In k cidx \/ In k idx) -> length o = n ->
  merge n cidx idx (proj cidx o) (proj idx o) = o.
Proof.
  intros Hcov Hlen. rewrite merge_proj by exact Hcov. subst n.
  transitivity (map (fun k => nth k o 0%nat) (range (length o))); [| apply map_nth_range].
  apply map_ext. intros k. destruct (nat_mem k cidx); reflexivity.
Qed.

Lemma nth_map_range {A} (F : nat -> A) n i a : (i < n)%nat -> nth i (map F (range n)) a = F i.
Proof.
  intros H. unfold range. rewrite nth_map_lt by (rewrite seq_length; exact H).
  rewrite seq_nth by exact H. reflexivity.
Qed.

Lemma projs_of_merge n cidx idx o0 o1 :
  (forall k, (k < n)%nat -> In k cidx \/ In k idx) ->
  Forall (fun i => (i < n)%nat) cidx -> Forall (fun i => (i < n)%nat) idx ->
  (forall i, In i cidx -> In i idx -> False) ->
  proj cidx (merge n cidx idx (proj cidx o0) (proj idx o1)) = proj cidx o0 /\
  proj idx (merge n cidx idx (proj cidx o0) (proj idx o1)) = proj idx o1.
Proof.
  intros Hcov Hc Hi Hdis. rewrite merge_proj by exact Hcov.
  rewrite Forall_forall in Hc, Hi. split; unfold proj; apply map_ext_in; intros i Hin.
  - rewrite nth_map_range by (apply Hc, Hin).
    apply nat_mem_In in Hin. rewrite Hin. reflexivity.
  - rewrite nth_map_range by (apply Hi, Hin).
    destruct (nat_mem i cidx) eqn:E; [| reflexivity].
    apply nat_mem_In in E. exfalso. apply (Hdis i E Hin).
Qed.

(* ---------- 2. the core identity on an abstract reduced joint ---------------------------------- *)

Lemma fibre_sum_ge f (t : pd) o w :
  Forall (fun x => 0 <= snd x) t -> In (o, w) t -> w <= fibre_sum f t (f o).
Proof.
  unfold fibre_sum. induction 1 as [|[k v] t Hx Ht IH]; simpl; intros Hin; [contradiction|].
  simpl in Hx. destruct Hin as [E|Hin].
  - inversion E; subst. rewrite oeqb_refl. simpl.
    assert (0 <= qsum (map snd (filter (fun x => oeqb (f (fst x)) (f o)) t))).
    { apply (fibre_sum_nonneg f t (f o)). exact Ht. }
    lra.
  - specialize (IH Hin). destruct (oeqb (f k) (f o)); simpl; lra.
Qed.

Lemma is_null_mono b w s : 0 <= w -> w <= s -> is_null b w = false -> is_null b s = false.
Proof.
  intros H0 Hle Hn.
  assert (Hlog: Qeq_bool w 0 = false -> Qeq_bool s 0 = false).
  { intros Hw. destruct (Qeq_bool s 0) eqn:E; [| reflexivity].
    apply Qeq_bool_iff in E.
    assert (Ew: w == 0) by lra. apply Qeq_bool_iff in Ew. congruence. }
  destruct b; simpl in *; try (apply Hlog; exact Hn).
  destruct (Qabs_le s null_tol) eqn:E; [| reflexivity].
  apply Qabs_le_spec in E.
  assert (Hw: Qabs_le w null_tol = true).
  { apply Qabs_le_spec. unfold null_tol in *. lra. }
  congruence.
Qed.

Lemma In_keys_trim_reorder ss (t : pd) b r v :
  In r (ss_enum ss) -> find_key r t = Some v -> is_null b v = false ->
  In r (keys (trim b (reorder ss t))).
Proof.
  intros Hr Hf Hn. unfold keys. apply in_map_iff. exists (r, v). split; [reflexivity|].
  unfold trim. apply filter_In. split; [| simpl; rewrite Hn; reflexivity].
  unfold reorder. apply in_flat_map. exists r. split; [exact Hr|]. rewrite Hf. left; reflexivity.
Qed.

Lemma In_keys_trim_reorder_inv ss (t : pd) b r :
  In r (keys (trim b (reorder ss t))) -> In r (keys t).
Proof.
  intros H. unfold keys in H. apply in_map_iff in H as [[k v] [E H]]. simpl in E; subst k.
  apply filter_In in H as [H _]. unfold reorder in H. apply in_flat_map in H as [o [_ H]].
  destruct (find_key o t) as [w|] eqn:Ef; [| destruct H]. destruct H as [H|[]]. inversion H; subst.
  apply find_key_In in Ef. unfold keys. apply in_map_iff. exists (r, v). auto.
Qed.

(* what the proof needs to know about the reduced, trimmed joint and the two position lists *)
Definition joint_ok (b : base) (dj : dist) (n : nat) (cidx idx : list nat) : Prop :=
  d_sparse dj = true /\ d_base dj = b /\
  ss_wf (d_ss dj) /\ NoDup (keys (d_tbl dj)) /\
  (forall o, In o (keys (d_tbl dj)) -> length o = n) /\
  (forall o, In o (keys (d_tbl dj)) -> In (proj idx o) (ss_enum (ss_coalesce idx (d_ss dj)))) /\
  (forall o v, In (o, v) (d_tbl dj) -> 0 <= v /\ is_null b v = false) /\
  Forall (fun i => (i < n)%nat) cidx /\ Forall (fun i => (i < n)%nat) idx /\
  (forall i, In i cidx -> In i idx -> False) /\
  (forall k, (k < n)%nat -> In k cidx \/ In k idx).

Lemma row_joint_sum_core b dj n cidx idx c pc :
  joint_ok b dj n cidx idx ->
  In (c, pc) (d_tbl (coalesce_flat cidx dj)) ->
  qsum (map (fun r => get0 (merge n cidx idx c r) (d_tbl dj)) (keys (d_tbl (coalesce_flat idx dj)))) == pc.
Proof.
  intros (Hsp & Hb & Hss & Hnd & Hlen & Hkept & Hval & Hc & Hi & Hdis & Hcov) Hin.
  unfold coalesce_flat in *. cbn [d_tbl d_ss d_sparse d_base] in *. rewrite Hsp, Hb in *.
  unfold build in *.
  set (J := d_tbl dj) in *.
  (* pc is the fibre sum of c, and c is a projection *)
  assert (Hf: find_key c (pushforward (proj cidx) J) = Some pc).
  { unfold trim in Hin. apply filter_In in Hin as [Hin _].
    unfold reorder in Hin. apply in_flat_map in Hin as [o [_ Hin]].
    destruct (find_key o (pushforward (proj cidx) J)) as [w|] eqn:E; [| destruct Hin].
    destruct Hin as [Hin|[]]. inversion Hin; subst. exact E. }
  assert (Hpc: pc == fibre_sum (proj cidx) J c).
  { rewrite <- pushforward_prob, <- get0_prob_of by apply pushforward_nodup.
    unfold get0. rewrite Hf. reflexivity. }
  assert (Hc0: exists o0, In o0 (keys J) /\ c = proj cidx o0).
  { apply pushforward_keys. apply find_key_In in Hf.
    unfold keys. apply in_map_iff. exists (c, pc). auto. }
  destruct Hc0 as [o0 [Ho0 Ec]].
  assert (Hnn: Forall (fun x => 0 <= snd x) J).
  { apply Forall_forall. intros [o v] Hov. apply (Hval o v Hov). }
  rewrite Hpc. unfold fibre_sum.
  apply (sum_regroup J _ (proj idx) (merge n cidx idx c) (fun o => oeqb (proj cidx o) c)).
  - exact Hnd.
  - apply NoDup_keys_filter, NoDup_keys_reorder, ss_wf_NoDup, ss_coalesce_wf, Hss.
  - intros o Ho HP. apply oeqb_eq in HP. split.
    + unfold keys in Ho. apply in_map_iff in Ho as [[k w] [Ek Hkw]]. simpl in Ek; subst k.
      destruct (find_key (proj idx o) (pushforward (proj idx) J)) as [v|] eqn:Ef.
      * apply (In_keys_trim_reorder _ _ _ _ v).
        -- apply Hkept. unfold keys. apply in_map_iff. exists (o, w). auto.
        -- exact Ef.
        -- assert (Hv: v == fibre_sum (proj idx) J (proj idx o)).
           { rewrite <- pushforward_prob, <- get0_prob_of by apply pushforward_nodup.
             unfold get0. rewrite Ef. reflexivity. }
           rewrite (is_null_compat _ _ _ Hv).
           destruct (Hval o w Hkw) as [Hw0 Hwn].
           apply (is_null_mono b w); [exact Hw0| | exact Hwn].
           apply fibre_sum_ge; assumption.
      * exfalso. apply find_key_None in Ef. apply Ef. apply pushforward_keys.
        exists o. split; [| reflexivity]. unfold keys. apply in_map_iff. exists (o, w). auto.
    + rewrite <- HP. apply merge_of_projs; [exact Hcov| apply Hlen, Ho].
  - intros r Hr _. apply In_keys_trim_reorder_inv in Hr.
    apply pushforward_keys in Hr as [o1 [_ Er]]. subst r c.
    destruct (projs_of_merge n cidx idx o0 o1 Hcov Hc Hi Hdis) as [E1 E2].
    split; [apply oeqb_eq, E1| exact E2].
Qed.

(* ---------- 3. what condition_on guarantees about positions ------------------------------------- *)

Lemma nat_nodup_NoDup l : nat_nodup l = true -> NoDup l.
Proof.
  induction l as [|x t IH]; simpl; intros H; constructor; apply andb_true_iff in H as [H1 H2].
  - intro Hin. apply nat_mem_In in Hin. rewrite Hin in H1. discriminate.
  - apply IH, H2.
Qed.

Lemma map_opt_In {A B} (f : A -> option B) l r y :
  map_opt f l = Some r -> In y r -> exists x, In x l /\ f x = Some y.
Proof.
  revert r; induction l as [|a l IH]; simpl; intros r H Hy.
  - inversion H; subst. destruct Hy.
  - destruct (f a) as [b|] eqn:Ea; [| discriminate].
    destruct (map_opt f l) as [r'|]; [| discriminate]. inversion H; subst.
    destruct Hy as [<-|Hy]; [exists a; auto|].
    destruct (IH r' eq_refl Hy) as [x [Hx Hfx]]. exists x; auto.
Qed.

Lemma map_opt_NoDup {A B} (f : A -> option B) l r :
  map_opt f l = Some r -> NoDup l ->
  (forall x y j, f x = Some j -> f y = Some j -> x = y) -> NoDup r.
Proof.
  revert r; induction l as [|a l IH]; simpl; intros r H Hn Hinj.
  - inversion H; constructor.
  - destruct (f a) as [b|] eqn:Ea; [| discriminate].
    destruct (map_opt f l) as [r'|] eqn:Er; [| discriminate]. inversion H; subst.
    inversion Hn as [|? ? Ha Hl]; subst. constructor.
    + intro Hin. destruct (map_opt_In f l r' b Er Hin) as [x [Hx Hfx]].
      assert (x = a) by (apply (Hinj x a b); assumption). subst. contradiction.
    + apply IH; auto.
Qed.

Lemma parse_rvs_nodup d s srt idx : parse_rvs d s true srt = Some idx -> NoDup idx.
Proof.
  unfold parse_rvs.
  destruct (match s with ByIdx l => l | ByName l => l end) as [|r0 raw] eqn:Eraw;
    [intros H; inversion H; constructor|].
  destruct (nat_nodup (r0 :: raw)) eqn:End; simpl; [| discriminate].
  apply nat_nodup_NoDup in End.
  destruct (match s with ByIdx l => Some l | ByName l => _ end) as [idx0|] eqn:Eidx; [| discriminate].
  destruct (forallb (fun i => Nat.ltb i (d_nvars d)) idx0); [| discriminate].
  intros H; inversion H; subst; clear H.
  assert (H0: NoDup idx0).
  { destruct s as [l|l]; subst l.
    - inversion Eidx; subst. exact End.
    - destruct (d_names d) as [names|]; [| discriminate].
      apply (map_opt_NoDup _ _ _ Eidx End).
      intros x y j Hx Hy. apply index_of_spec in Hx, Hy.
      destruct Hx as (_ & _ & Hx), Hy as (_ & _ & Hy). congruence. }
  destruct srt; [| exact H0].
  apply (Permutation_NoDup (Permutation_sym (nsort_perm idx0))), H0.
Qed.

(* the result record, with the two selections named *)
Lemma condition_on_inv cs rs d cr :
  condition_on cs rs d = Some cr ->
  exists cidx idx,
    NoDup cidx /\ NoDup idx /\
    Forall (fun i => (i < d_nvars d)%nat) cidx /\ Forall (fun i => (i < d_nvars d)%nat) idx /\
    (forall i, In i cidx -> In i idx -> False) /\
    cr_n cr = length (nsort (cidx ++ idx)) /\
    (Nat.ltb (length (nsort (cidx ++ idx))) (d_nvars d) = false /\
       cr_cidx cr = cidx /\ cr_idx cr = idx /\ cr_joint cr = d_make_sparse_trim d
     \/
     Nat.ltb (length (nsort (cidx ++ idx))) (d_nvars d) = true /\
       cr_cidx cr = map (fun i => pos_in i (nsort (cidx ++ idx))) cidx /\
       cr_idx cr = map (fun i => pos_in i (nsort (cidx ++ idx))) idx /\
       cr_joint cr = d_make_sparse_trim
                       (with_names (select_names (nsort (cidx ++ idx)) d)
                                   (coalesce_flat (nsort (cidx ++ idx)) d))).
Proof.
  unfold condition_on.
  destruct (parse_rvs d cs true true) as [cidx|] eqn:Ec; [| discriminate].
  destruct (match rs with
            | None => Some (filter (fun i => negb (nat_mem i cidx)) (range (d_nvars d)))
            | Some s => parse_rvs d s true true end) as [idx|] eqn:Ei; [| discriminate].
  destruct (existsb (fun i => nat_mem i cidx) idx) eqn:Ex; [discriminate|].
  intros H. inversion H; subst; clear H. cbn [cr_joint cr_cdist cr_conds cr_cidx cr_idx cr_n].
  exists cidx, idx.
  assert (Hi: NoDup idx /\ Forall (fun i => (i < d_nvars d)%nat) idx).
  { destruct rs as [s|].
    - split; [apply (parse_rvs_nodup _ _ _ _ Ei)| apply (parse_rvs_valid _ _ _ _ _ Ei)].
    - inversion Ei; subst. split.
      + apply NoDup_filter. unfold range. apply seq_NoDup.
      + apply Forall_forall. intros i Hin. apply filter_In in Hin as [Hin _].
        unfold range in Hin. apply in_seq in Hin. lia. }
  destruct Hi as [Hi1 Hi2].
  split; [apply (parse_rvs_nodup _ _ _ _ Ec)|]. split; [exact Hi1|].
  split; [apply (parse_rvs_valid _ _ _ _ _ Ec)|]. split; [exact Hi2|].
  split.
  { intros i H1 H2. assert (existsb (fun i => nat_mem i cidx) idx = true); [| congruence].
    apply existsb_exists. exists i. split; [exact H2| apply nat_mem_In, H1]. }
  split; [reflexivity|].
  destruct (Nat.ltb (length (nsort (cidx ++ idx))) (d_nvars d)); [right| left]; repeat split; reflexivity.
Qed.

Lemma not_reduced_cover nv (cidx idx : list nat) :
  NoDup cidx -> NoDup idx -> (forall i, In i cidx -> In i idx -> False) ->
  Forall (fun i => (i < nv)%nat) cidx -> Forall (fun i => (i < nv)%nat) idx ->
  Nat.ltb (length (nsort (cidx ++ idx))) nv = false ->
  length (nsort (cidx ++ idx)) = nv /\ (forall k, (k < nv)%nat -> In k cidx \/ In k idx).
Proof.
  intros Hc Hi Hdis Fc Fi Hlt. apply Nat.ltb_ge in Hlt.
  rewrite (Permutation_length (nsort_perm (cidx ++ idx))) in *.
  assert (Hnd: NoDup (cidx ++ idx)) by (apply NoDup_app_disjoint; assumption).
  assert (Hincl: incl (cidx ++ idx) (seq 0 nv)).
  { intros i Hin. apply in_seq. rewrite Forall_forall in Fc, Fi.
    apply in_app_iff in Hin as [H|H]; [specialize (Fc i H)| specialize (Fi i H)]; lia. }
  pose proof (NoDup_incl_length Hnd Hincl) as Hle. rewrite seq_length in Hle.
  split; [lia|].
  intros k Hk. apply in_app_iff.
  assert (Hlen: (length (seq 0 nv) <= length (cidx ++ idx))%nat) by (rewrite seq_length; lia).
  apply (NoDup_length_incl Hnd Hlen Hincl). apply in_seq; lia.
Qed.

Lemma reduced_positions (U cidx idx : list nat) :
  NoDup U -> (forall i, In i U <-> In i cidx \/ In i idx) ->
  (forall i, In i cidx -> In i idx -> False) ->
  let cidx' := map (fun i => pos_in i U) cidx in
  let idx' := map (fun i => pos_in i U) idx in
  Forall (fun i => (i < length U)%nat) cidx' /\ Forall (fun i => (i < length U)%nat) idx' /\
  (forall i, In i cidx' -> In i idx' -> False) /\
  (forall k, (k < length U)%nat -> In k cidx' \/ In k idx').
Proof.
  intros HU Hmem Hdis cidx' idx'. subst cidx' idx'.
  split; [| split; [| split]].
  - apply Forall_forall. intros k Hk. apply in_map_iff in Hk as [i [<- Hi]].
    apply pos_in_spec, Hmem. auto.
  - apply Forall_forall. intros k Hk. apply in_map_iff in Hk as [i [<- Hi]].
    apply pos_in_spec, Hmem. auto.
  - intros k H1 H2. apply in_map_iff in H1 as [x [Ex Hx]], H2 as [y [Ey Hy]].
    assert (HxU: In x U) by (apply Hmem; auto). assert (HyU: In y U) by (apply Hmem; auto).
    destruct (pos_in_spec x U HxU) as [_ Nx]. destruct (pos_in_spec y U HyU) as [_ Ny].
    assert (x = y) by congruence. subst y. apply (Hdis x Hx Hy).
  - intros k Hk.
    assert (HxU: In (nth k U 0%nat) U) by (apply nth_In, Hk).
    destruct (pos_in_spec _ U HxU) as [Hlt Hn].
    assert (Epos: pos_in (nth k U 0%nat) U = k).
    { apply (proj1 (NoDup_nth U 0%nat) HU); assumption. }
    apply Hmem in HxU as [H|H]; [left| right]; apply in_map_iff; exists (nth k U 0%nat); auto.
Qed.

(* ---------- 4. sample spaces and signs through the reduction step ------------------------------- *)

Lemma mem_cart_length o a : mem_cart o a = true -> length o = length a.
Proof.
  revert a; induction o as [|x o IH]; intros [|y a]; simpl; intros H; try discriminate; [reflexivity|].
  apply andb_true_iff in H as [_ H]. f_equal. apply IH, H.
Qed.

Lemma ss_coalesce_length U ss o : In o (ss_enum (ss_coalesce U ss)) -> length o = length U.
Proof.
  destruct ss as [a|os]; simpl; intros H.
  - apply In_cart, mem_cart_length in H. rewrite map_length in H. exact H.
  - apply In_osort, In_odedup, in_map_iff in H as [o' [<- _]]. unfold proj. apply map_length.
Qed.

Lemma ss_coalesce_twice_mem U I ss o :
  In o (ss_enum (ss_coalesce U ss)) -> Forall (fun i => (i < length U)%nat) I ->
  In (proj I o) (ss_enum (ss_coalesce I (ss_coalesce U ss))).
Proof.
  destruct ss as [a|os]; simpl; intros H HI.
  - apply In_cart. apply In_cart in H. apply mem_cart_proj; [exact H|].
    rewrite map_length. exact HI.
  - apply In_osort, In_odedup, in_map. exact H.
Qed.

Lemma add_to_nonneg k v acc :
  0 <= v -> Forall (fun x : outcome * Q => 0 <= snd x) acc -> Forall (fun x => 0 <= snd x) (add_to k v acc).
Proof.
  intros Hv. induction 1 as [|[k' v'] t Hx Ht IH]; simpl.
  - constructor; [exact Hv| constructor].
  - simpl in Hx. destruct (oeqb k' k); constructor; simpl; auto; lra.
Qed.

Lemma pushforward_nonneg f (t : pd) :
  Forall (fun x => 0 <= snd x) t -> Forall (fun x => 0 <= snd x) (pushforward f t).
Proof.
  unfold pushforward.
  assert (H: forall acc, Forall (fun x : outcome * Q => 0 <= snd x) acc ->
             Forall (fun x : outcome * Q => 0 <= snd x) t ->
             Forall (fun x => 0 <= snd x) (fold_left (fun acc x => add_to (f (fst x)) (snd x) acc) t acc)).
  { induction t as [|[k v] t IH]; intros acc Hacc Ht; simpl; [exact Hacc|].
    inversion Ht; subst. apply IH; [apply add_to_nonneg; assumption| assumption]. }
  intros Ht. apply H; [constructor| exact Ht].
Qed.

Lemma build_nonneg ss (t : pd) sp b r v :
  Forall (fun x => 0 <= snd x) t -> In (r, v) (build ss t sp b) -> 0 <= v.
Proof.
  intros Ht Hin. rewrite Forall_forall in Ht.
  apply In_build in Hin as [[_ Hf]|[_ [Hv _]]].
  - apply find_key_In in Hf. apply (Ht _ Hf).
  - subst v. unfold get0. destruct (find_key r t) as [w|] eqn:E; [| lra].
    apply find_key_In in E. apply (Ht _ E).
Qed.

(* ---------- 5. hypotheses on the source distribution, and joint_ok from condition_on ---------- *)

(* what every distribution dit accepts satisfies: sample space without repetition, stored outcomes
   distinct, inside the sample space and of the common length, stored values non-negative *)
Definition cond_wf (d : dist) : Prop :=
  dist_ok d /\
  (forall o, In o (keys (d_tbl d)) -> length o = d_nvars d) /\
  Forall (fun x => 0 <= snd x) (d_tbl d).

Lemma In_keys_pair (t : pd) o : In o (keys t) <-> exists v, In (o, v) t.
Proof.
  unfold keys. rewrite in_map_iff. split.
  - intros [[k v] [E H]]. simpl in E; subst. exists v; exact H.
  - intros [v H]. exists (o, v). auto.
Qed.

Lemma condition_on_joint_ok cs rs d cr :
  cond_wf d -> condition_on cs rs d = Some cr ->
  joint_ok (d_base d) (cr_joint cr) (cr_n cr) (cr_cidx cr) (cr_idx cr).
Proof.
  intros ((Hss & Hnd & Hin) & Hlen & Hnn) H.
  destruct (condition_on_inv _ _ _ _ H) as (cidx & idx & Nc & Ni & Fc & Fi & Hdis & En & Hcase).
  set (U := nsort (cidx ++ idx)) in *.
  destruct Hcase as [(Hlt & Ec & Ei & Ej)|(Hlt & Ec & Ei & Ej)]; rewrite En, Ec, Ei, Ej; clear En Ec Ei Ej;
    unfold joint_ok, d_make_sparse_trim; cbn [d_tbl d_ss d_sparse d_base with_names coalesce_flat].
  - (* no reduction *)
    destruct (not_reduced_cover _ _ _ Nc Ni Hdis Fc Fi Hlt) as [EU Hcov]. fold U in EU. rewrite EU.
    split; [reflexivity|]. split; [reflexivity|]. split; [exact Hss|].
    split; [apply NoDup_keys_filter, Hnd|].
    split; [intros o Ho; apply Hlen; apply (keys_filter_sub _ _ _ Ho)|].
    split.
    { intros o Ho. apply keys_filter_sub in Ho. apply ss_mem_In.
      apply ss_coalesce_mem; [apply Hin, Ho| exact Fi]. }
    split.
    { intros o v Hov. unfold trim in Hov. apply filter_In in Hov as [Hov Hn]. simpl in Hn.
      rewrite Forall_forall in Hnn. split; [apply (Hnn _ Hov)| apply negb_true_iff, Hn]. }
    split; [exact Fc|]. split; [exact Fi|]. split; [exact Hdis| exact Hcov].
  - (* reduction to the positions of U *)
    assert (HU: NoDup U).
    { apply (Permutation_NoDup (Permutation_sym (nsort_perm (cidx ++ idx)))).
      apply NoDup_app_disjoint; assumption. }
    assert (Hmem: forall i, In i U <-> In i cidx \/ In i idx).
    { intros i. rewrite <- in_app_iff. split; apply Permutation_in;
        [apply nsort_perm| apply Permutation_sym, nsort_perm]. }
    destruct (reduced_positions U cidx idx HU Hmem Hdis) as (Fc' & Fi' & Hdis' & Hcov').
    assert (HssU: NoDup (ss_enum (ss_coalesce U (d_ss d)))) by (apply ss_wf_NoDup, ss_coalesce_wf, Hss).
    split; [reflexivity|]. split; [reflexivity|].
    split; [apply ss_coalesce_wf, Hss|].
    split; [apply NoDup_keys_filter, NoDup_keys_build, HssU|].
    split.
    { intros o Ho. apply keys_filter_sub, keys_build_sub in Ho. apply (ss_coalesce_length _ _ _ Ho). }
    split.
    { intros o Ho. apply keys_filter_sub, keys_build_sub in Ho.
      apply ss_coalesce_twice_mem; [exact Ho| exact Fi']. }
    split.
    { intros o v Hov. unfold trim in Hov. apply filter_In in Hov as [Hov Hn]. simpl in Hn.
      split; [| apply negb_true_iff, Hn].
      apply (build_nonneg _ _ _ _ _ _ (pushforward_nonneg (proj U) _ Hnn) Hov). }
    split; [exact Fc'|]. split; [exact Fi'|]. split; [exact Hdis'| exact Hcov'].
Qed.

(* ---------- 6. theorem 1: the row of joint values sums to the marginal -------------------------- *)

Theorem cond_row_joint_sum cs rs d cr k c pc :
  cond_wf d ->
  condition_on cs rs d = Some cr ->
  nth_error (d_tbl (cr_cdist cr)) k = Some (c, pc) ->
  qsum (map (fun r => get0 (merge (cr_n cr) (cr_cidx cr) (cr_idx cr) c r) (d_tbl (cr_joint cr)))
            (keys (d_tbl (coalesce_flat (cr_idx cr) (cr_joint cr))))) == pc.
Proof.
  intros Hwf H Hk.
  pose proof (condition_on_joint_ok _ _ _ _ Hwf H) as Hok.
  destruct (condition_on_unfold _ _ _ _ H) as (_ & _ & Hcd & _).
  apply nth_error_In in Hk. rewrite Hcd in Hk. unfold with_names in Hk. cbn [d_tbl] in Hk.
  apply (row_joint_sum_core _ _ _ _ _ _ _ Hok Hk).
Qed.

(* the row handed to build has total 1 *)
Lemma cond_row_total cs rs d cr k c pc :
  cond_wf d ->
  condition_on cs rs d = Some cr ->
  nth_error (d_tbl (cr_cdist cr)) k = Some (c, pc) ->
  qsum (map (fun r => get0 (merge (cr_n cr) (cr_cidx cr) (cr_idx cr) c r) (d_tbl (cr_joint cr)) / pc)
            (keys (d_tbl (coalesce_flat (cr_idx cr) (cr_joint cr))))) == 1.
Proof.
  intros Hwf H Hk.
  rewrite (qsum_scale (fun r => get0 (merge (cr_n cr) (cr_cidx cr) (cr_idx cr) c r) (d_tbl (cr_joint cr))) pc).
  rewrite (cond_row_joint_sum _ _ _ _ _ _ _ Hwf H Hk).
  assert (Hpc: ~ pc == 0) by (apply (cond_cdist_nonnull cs rs d cr c pc H), (nth_error_In _ _ Hk)).
  field. exact Hpc.
Qed.

(* ---------- 7. theorems 2 and 3: mass of the stored conditional --------------------------------- *)

Lemma reorder_map_keyed ss (g : outcome -> Q) (l : list outcome) :
  reorder ss (map (fun r => (r, g r)) l)
  = map (fun r => (r, g r)) (filter (fun o => omem o l) (ss_enum ss)).
Proof.
  unfold reorder. induction (ss_enum ss) as [|x t IH]; simpl; [reflexivity|].
  rewrite find_key_map_keyed. destruct (omem x l); simpl; rewrite IH; reflexivity.
Qed.

Lemma filter_map_comm {A B} (p : B -> bool) (f : A -> B) l :
  filter p (map f l) = map f (filter (fun x => p (f x)) l).
Proof.
  induction l as [|a l IH]; simpl; [reflexivity|]. destruct (p (f a)); simpl; rewrite IH; reflexivity.
Qed.

Lemma mass_trim b (t : pd) :
  mass (trim b t) == mass t - mass (filter (fun x => is_null b (snd x)) t).
Proof.
  unfold mass, trim. induction t as [|[k v] t IH]; simpl; [lra|].
  destruct (is_null b v); simpl; rewrite IH; lra.
Qed.

Lemma filter_all_false {A} (p : A -> bool) l : (forall x, In x l -> p x = false) -> filter p l = [].
Proof.
  induction l as [|a l IH]; simpl; intros H; [reflexivity|].
  rewrite (H a) by auto. apply IH. intros x Hx. apply H. auto.
Qed.

(* the stored outcomes of the kept marginal are a membership filter of its sample space *)
Lemma cr_rdist_keys_order cs rs d cr :
  cond_wf d -> condition_on cs rs d = Some cr ->
  keys (d_tbl (cr_rdist cr))
  = filter (fun o => omem o (keys (d_tbl (cr_rdist cr)))) (ss_enum (d_ss (cr_rdist cr))).
Proof.
  intros Hwf H. destruct (condition_on_joint_ok _ _ _ _ Hwf H) as (_ & _ & Hss & _).
  apply (wf_order _ (coalesce_WF (cr_idx cr) (cr_joint cr) Hss)).
Qed.

(* 2. dense source: every stored conditional has mass exactly 1 *)
Theorem cond_row_mass_dense cs rs d cr k c pc cd :
  cond_wf d ->
  condition_on cs rs d = Some cr ->
  nth_error (d_tbl (cr_cdist cr)) k = Some (c, pc) -> nth_error (cr_conds cr) k = Some cd ->
  d_sparse d = false ->
  mass (d_tbl cd) == 1.
Proof.
  intros Hwf H Hk Hc Hsp.
  pose proof (cond_nth _ _ _ _ _ _ _ _ H Hk Hc) as Ecd. subst cd.
  unfold cr_cond. cbn [d_tbl fst snd]. rewrite Hsp. unfold build, dense_of, mass.
  rewrite map_map. cbn [snd].
  rewrite (qsum_filter_zero (fun o => get0 o (cr_row cr c pc))
                            (fun o => omem o (keys (d_tbl (cr_rdist cr))))).
  2:{ intros o _ E. rewrite get0_cr_row_notin; [reflexivity|].
      intro Hin. apply omem_In in Hin. congruence. }
  rewrite <- (cr_rdist_keys_order _ _ _ _ Hwf H).
  rewrite <- (cond_row_total _ _ _ _ _ _ _ Hwf H Hk).
  apply qsum_map_ext_in. intros r Hr. rewrite (get0_cr_row_in cr c pc r Hr). reflexivity.
Qed.

(* 3. sparse source: mass 1 minus the null entries of the row, which trimming removed *)
Theorem cond_row_mass_sparse cs rs d cr k c pc cd :
  cond_wf d ->
  condition_on cs rs d = Some cr ->
  nth_error (d_tbl (cr_cdist cr)) k = Some (c, pc) -> nth_error (cr_conds cr) k = Some cd ->
  d_sparse d = true ->
  mass (d_tbl cd) ==
  1 - qsum (map (fun r => get0 (merge (cr_n cr) (cr_cidx cr) (cr_idx cr) c r) (d_tbl (cr_joint cr)) / pc)
                (filter (fun r => is_null (d_base d)
                                    (get0 (merge (cr_n cr) (cr_cidx cr) (cr_idx cr) c r) (d_tbl (cr_joint cr)) / pc))
                        (keys (d_tbl (coalesce_flat (cr_idx cr) (cr_joint cr)))))).
Proof.
  intros Hwf H Hk Hc Hsp.
  pose proof (cond_nth _ _ _ _ _ _ _ _ H Hk Hc) as Ecd. subst cd.
  unfold cr_cond. cbn [d_tbl fst snd]. rewrite Hsp. unfold build.
  assert (Hre: reorder (d_ss (cr_rdist cr)) (cr_row cr c pc) = cr_row cr c pc).
  { unfold cr_row. rewrite reorder_map_keyed. rewrite <- (cr_rdist_keys_order _ _ _ _ Hwf H). reflexivity. }
  rewrite Hre, mass_trim.
  assert (Hm: mass (cr_row cr c pc) == 1).
  { unfold mass, cr_row. rewrite map_map. cbn [snd]. apply (cond_row_total _ _ _ _ _ _ _ Hwf H Hk). }
  rewrite Hm. unfold mass, cr_row.
  rewrite (filter_map_comm (fun x : outcome * Q => is_null (d_base d) (snd x))). cbn [snd].
  rewrite map_map. cbn [snd]. reflexivity.
Qed.

Corollary cond_row_mass_sparse_no_null cs rs d cr k c pc cd :
  cond_wf d ->
  condition_on cs rs d = Some cr ->
  nth_error (d_tbl (cr_cdist cr)) k = Some (c, pc) -> nth_error (cr_conds cr) k = Some cd ->
  d_sparse d = true ->
  (forall r, In r (keys (d_tbl (coalesce_flat (cr_idx cr) (cr_joint cr)))) ->
     is_null (d_base d) (get0 (merge (cr_n cr) (cr_cidx cr) (cr_idx cr) c r) (d_tbl (cr_joint cr)) / pc) = false) ->
  mass (d_tbl cd) == 1.
Proof.
  intros Hwf H Hk Hc Hsp Hnn.
  rewrite (cond_row_mass_sparse _ _ _ _ _ _ _ _ Hwf H Hk Hc Hsp).
  rewrite filter_all_false by exact Hnn. simpl. lra.
Qed.

(* a null entry that is exactly 0 costs nothing: in particular for every log base, where the null
   test is "== 0", sparse rows are exactly normalised *)
Corollary cond_row_mass_sparse_zero_nulls cs rs d cr k c pc cd :
  cond_wf d ->
  condition_on cs rs d = Some cr ->
  nth_error (d_tbl (cr_cdist cr)) k = Some (c, pc) -> nth_error (cr_conds cr) k = Some cd ->
  d_sparse d = true ->
  (forall r, In r (keys (d_tbl (coalesce_flat (cr_idx cr) (cr_joint cr)))) ->
     is_null (d_base d) (get0 (merge (cr_n cr) (cr_cidx cr) (cr_idx cr) c r) (d_tbl (cr_joint cr)) / pc) = true ->
     get0 (merge (cr_n cr) (cr_cidx cr) (cr_idx cr) c r) (d_tbl (cr_joint cr)) / pc == 0) ->
  mass (d_tbl cd) == 1.
Proof.
  intros Hwf H Hk Hc Hsp Hz.
  rewrite (cond_row_mass_sparse _ _ _ _ _ _ _ _ Hwf H Hk Hc Hsp).
  match goal with |- 1 - qsum (map ?f (filter ?p ?l)) == 1 =>
    assert (E: qsum (map f (filter p l)) == 0) end.
  { induction (keys (d_tbl (coalesce_flat (cr_idx cr) (cr_joint cr)))) as [|a l IH]; simpl; [lra|].
    destruct (is_null (d_base d) _) eqn:En; simpl.
    - rewrite (Hz a (or_introl eq_refl) En). rewrite IH; [lra|].
      intros r Hr. apply Hz. right; exact Hr.
    - apply IH. intros r Hr. apply Hz. right; exact Hr. }
  rewrite E. lra.
Qed.

Corollary cond_row_mass_sparse_log cs rs d cr k c pc cd :
  cond_wf d ->
  condition_on cs rs d = Some cr ->
  nth_error (d_tbl (cr_cdist cr)) k = Some (c, pc) -> nth_error (cr_conds cr) k = Some cd ->
  d_sparse d = true -> d_base d <> Linear ->
  mass (d_tbl cd) == 1.
Proof.
  intros Hwf H Hk Hc Hsp Hb.
  apply (cond_row_mass_sparse_zero_nulls _ _ _ _ _ _ _ _ Hwf H Hk Hc Hsp).
  intros r _ Hn. destruct (d_base d); [contradiction| | |]; simpl in Hn; apply Qeq_bool_iff, Hn.
Qed.

(* in every base: a sparse row is normalised up to 1e-8 per stored outcome of the kept marginal *)
Lemma null_entry_le b v : is_null b v = true -> v <= null_tol.
Proof.
  destruct b; simpl; intros H; try (apply Qeq_bool_iff in H; rewrite H; unfold null_tol; lra).
  apply Qabs_le_spec in H. tauto.
Qed.

Lemma qsum_filter_bound {A} (f : A -> Q) (p : A -> bool) (t : Q) l :
  0 <= t -> (forall x, In x l -> p x = true -> 0 <= f x /\ f x <= t) ->
  0 <= qsum (map f (filter p l)) /\
  qsum (map f (filter p l)) <= t * inject_Z (Z.of_nat (length l)).
Proof.
  intros Ht. induction l as [|a l IH]; intros H.
  - simpl. split; [lra|]. unfold inject_Z. simpl. lra.
  - assert (IH': 0 <= qsum (map f (filter p l)) /\
                 qsum (map f (filter p l)) <= t * inject_Z (Z.of_nat (length l)))
      by (apply IH; intros x Hx; apply H; right; exact Hx).
    assert (ES: inject_Z (Z.of_nat (length (a :: l))) == inject_Z (Z.of_nat (length l)) + 1).
    { cbn [length]. rewrite Nat2Z.inj_succ. unfold Z.succ. rewrite inject_Z_plus. reflexivity. }
    rewrite ES. cbn [filter]. destruct (p a) eqn:E; cbn [map qsum].
    + destruct (H a (or_introl eq_refl) E). nra.
    + nra.
Qed.

Lemma get0_nonneg (t : pd) o : (forall k v, In (k, v) t -> 0 <= v) -> 0 <= get0 o t.
Proof.
  intros H. unfold get0. destruct (find_key o t) as [v|] eqn:E; [| lra].
  apply find_key_In in E. apply (H _ _ E).
Qed.

Theorem cond_row_mass_sparse_bounds cs rs d cr k c pc cd :
  cond_wf d ->
  condition_on cs rs d = Some cr ->
  nth_error (d_tbl (cr_cdist cr)) k = Some (c, pc) -> nth_error (cr_conds cr) k = Some cd ->
  d_sparse d = true ->
  1 - null_tol * inject_Z (Z.of_nat (length (d_tbl (coalesce_flat (cr_idx cr) (cr_joint cr)))))
    <= mass (d_tbl cd) /\ mass (d_tbl cd) <= 1.
Proof.
  intros Hwf H Hk Hc Hsp.
  rewrite (cond_row_mass_sparse _ _ _ _ _ _ _ _ Hwf H Hk Hc Hsp).
  destruct (condition_on_joint_ok _ _ _ _ Hwf H) as (_ & _ & _ & _ & _ & _ & Hval & _).
  assert (HJ: forall o, 0 <= get0 o (d_tbl (cr_joint cr))).
  { intros o. apply get0_nonneg. intros k0 v Hv. apply (Hval k0 v Hv). }
  assert (Hpc: 0 < pc).
  { assert (Hn: ~ pc == 0) by (apply (cond_cdist_nonnull cs rs d cr c pc H), (nth_error_In _ _ Hk)).
    assert (H0: 0 <= pc).
    { rewrite <- (cond_row_joint_sum _ _ _ _ _ _ _ Hwf H Hk). apply qsum_nonneg.
      apply Forall_forall. intros x Hx. apply in_map_iff in Hx as [r [<- _]]. apply HJ. }
    lra. }
  match goal with |- _ <= 1 - qsum (map ?f (filter ?p ?l)) /\ _ =>
    destruct (qsum_filter_bound f p null_tol l) as [B1 B2] end.
  - unfold null_tol. lra.
  - intros r _ Hn. split; [| apply (null_entry_le _ _ Hn)].
    apply Qle_shift_div_l; [exact Hpc|]. rewrite Qmult_0_l. apply HJ.
  - assert (EL: length (keys (d_tbl (coalesce_flat (cr_idx cr) (cr_joint cr))))
               = length (d_tbl (coalesce_flat (cr_idx cr) (cr_joint cr)))) by apply map_length.
    rewrite EL in B2. split; lra.
Qed.

(* ---------- 8. non-vacuity: the hypotheses hold on concrete sparse / dense distributions -------- *)

(* three variables, sparse, outcomes 001, 101, 111 missing: conditioning on the last variable gives
   two rows with different supports, with or without the reduction step *)
Definition exN_d : dist :=
  mkDist (Cart [[0;1];[0;1];[0;1]]%nat)
         [([0;0;0]%nat, 1#8); ([0;1;0]%nat, 1#8); ([0;1;1]%nat, 1#4); ([1;0;0]%nat, 1#4); ([1;1;0]%nat, 1#4)]
         true Linear (Some [7;8;9]%nat).

(* two variables, dense, with a stored zero *)
Definition exD_d : dist :=
  mkDist (Cart [[0;1];[0;1]]%nat)
         [([0;0]%nat, 1#4); ([0;1]%nat, 1#4); ([1;0]%nat, 1#2); ([1;1]%nat, 0)]
         false Linear None.

Example exN_wf : cond_wf exN_d.
Proof.
  split; [split; [|split]| split].
  - simpl. repeat constructor; simpl; intuition discriminate.
  - simpl. repeat constructor; simpl; intuition discriminate.
  - intros o Ho. simpl in Ho. repeat (destruct Ho as [<-|Ho]; [reflexivity|]). destruct Ho.
  - intros o Ho. simpl in Ho. repeat (destruct Ho as [<-|Ho]; [reflexivity|]). destruct Ho.
  - repeat constructor; simpl; lra.
Qed.

Example exD_wf : cond_wf exD_d.
Proof.
  split; [split; [|split]| split].
  - simpl. repeat constructor; simpl; intuition discriminate.
  - simpl. repeat constructor; simpl; intuition discriminate.
  - intros o Ho. simpl in Ho. repeat (destruct Ho as [<-|Ho]; [reflexivity|]). destruct Ho.
  - intros o Ho. simpl in Ho. repeat (destruct Ho as [<-|Ho]; [reflexivity|]). destruct Ho.
  - repeat constructor; simpl; lra.
Qed.

(* the conclusions of theorems 1-3, computed: per stored conditioning entry, the row of joint values
   sums to pc and the stored conditional has mass 1; plus the sizes of the stored rows *)
Definition norm_check (cs : sel) (rs : option sel) (d : dist) : option (bool * list nat) :=
  match condition_on cs rs d with
  | Some cr =>
      Some (forallb (fun x =>
                       Qeq_bool (qsum (map (fun r => get0 (merge (cr_n cr) (cr_cidx cr) (cr_idx cr) (fst (fst x)) r)
                                                          (d_tbl (cr_joint cr)))
                                           (keys (d_tbl (coalesce_flat (cr_idx cr) (cr_joint cr))))))
                                (snd (fst x))
                       && Qeq_bool (mass (d_tbl (snd x))) 1)
                    (combine (d_tbl (cr_cdist cr)) (cr_conds cr)),
            map (fun cd => length (d_tbl cd)) (cr_conds cr))
  | None => None
  end.

(* with the reduction step (variable 1 summed out): rows {0,1} and {0} *)
Example exN_reduced_check :
  norm_check (ByIdx [2]%nat) (Some (ByIdx [0]%nat)) exN_d = Some (true, [2; 1]%nat).
Proof. vm_compute. reflexivity. Qed.

(* without it, selection by name: rows {00,01,10,11} and {01} *)
Example exN_full_check :
  norm_check (ByName [9]%nat) None exN_d = Some (true, [4; 1]%nat).
Proof. vm_compute. reflexivity. Qed.

(* dense: both rows keep the whole sample space *)
Example exD_check :
  norm_check (ByIdx [1]%nat) None exD_d = Some (true, [2; 2]%nat).
Proof. vm_compute. reflexivity. Qed.

(* and the theorems apply to them *)
Example exN_rows_sum cr k c pc :
  condition_on (ByIdx [2]%nat) (Some (ByIdx [0]%nat)) exN_d = Some cr ->
  nth_error (d_tbl (cr_cdist cr)) k = Some (c, pc) ->
  qsum (map (fun r => get0 (merge (cr_n cr) (cr_cidx cr) (cr_idx cr) c r) (d_tbl (cr_joint cr)))
            (keys (d_tbl (coalesce_flat (cr_idx cr) (cr_joint cr))))) == pc.
Proof. intros H Hk. apply (cond_row_joint_sum _ _ _ _ _ _ _ exN_wf H Hk). Qed.

Example exN_rows_normalised cr k c pc cd :
  condition_on (ByIdx [2]%nat) (Some (ByIdx [0]%nat)) exN_d = Some cr ->
  nth_error (d_tbl (cr_cdist cr)) k = Some (c, pc) -> nth_error (cr_conds cr) k = Some cd ->
  1 - (2#1) * null_tol <= mass (d_tbl cd) /\ mass (d_tbl cd) <= 1.
Proof.
  intros H Hk Hc.
  pose proof (cond_row_mass_sparse_bounds _ _ _ _ _ _ _ _ exN_wf H Hk Hc eq_refl) as B.
  vm_compute in H. inversion H; subst cr; clear H.
  vm_compute in B. vm_compute. exact B.
Qed.

Example exD_rows_normalised cr k c pc cd :
  condition_on (ByIdx [1]%nat) None exD_d = Some cr ->
  nth_error (d_tbl (cr_cdist cr)) k = Some (c, pc) -> nth_error (cr_conds cr) k = Some cd ->
  mass (d_tbl cd) == 1.
Proof. intros H Hk Hc. apply (cond_row_mass_dense _ _ _ _ _ _ _ _ exD_wf H Hk Hc eq_refl). Qed.

Print Assumptions cond_row_joint_sum.
Print Assumptions cond_row_mass_dense.
Print Assumptions cond_row_mass_sparse.
Print Assumptions cond_row_mass_sparse_no_null.
Print Assumptions cond_row_mass_sparse_zero_nulls.
Print Assumptions cond_row_mass_sparse_log.
Print Assumptions cond_row_mass_sparse_bounds.
