(* Proofs/C10_Proofs.v — well-scoped effect skeletons leave their arguments unchanged.
   A skeleton (list of C09 store operations) is well scoped for a call with n0 argument objects when
   every mutating operation targets an index >= n0, i.e. an object the skeleton allocated itself by
   Copy.  Such a skeleton leaves the first n0 objects of the store exactly as they were. *)
From Verif Require Import Dist C01_Model C09_Model C09_Proofs C10_Model.
From Coq Require Import Lia.
Open Scope Q_scope.

(* ---------- lists --------------------------------------------------------------------------- *)

Lemma firstn_upd {A} (s : list A) n0 l x : (n0 <= l)%nat -> firstn n0 (upd s l x) = firstn n0 s.
Proof.
  revert n0 l; induction s as [|y t IH]; intros n0 l Hle; simpl.
  - destruct l; reflexivity.
  - destruct l as [|j]; destruct n0 as [|m]; simpl; try reflexivity.
    + lia.
    + rewrite IH by lia. reflexivity.
Qed.

Lemma firstn_snoc {A} (s : list A) n0 x : (n0 <= length s)%nat -> firstn n0 (s ++ [x]) = firstn n0 s.
Proof.
  intros Hle. rewrite firstn_app.
  replace (n0 - length s)%nat with 0%nat by lia. simpl. apply app_nil_r.
Qed.

Lemma on_obj_firstn s l f n0 : (n0 <= l)%nat -> firstn n0 (fst (on_obj s l f)) = firstn n0 s.
Proof.
  intros Hle. unfold on_obj. destruct (nth_error s l) as [ob|]; [| reflexivity].
  destruct (f ob) as [ob' r]. simpl. apply firstn_upd, Hle.
Qed.

(* ---------- 1. one step ---------------------------------------------------------------------- *)

Theorem step_preserves_below s o n0 :
  (forall l, is_mutating o = Some l -> (n0 <= l)%nat) -> (n0 <= length s)%nat ->
  firstn n0 (fst (step s o)) = firstn n0 s.
Proof.
  intros Hm Hlen. destruct o as [l k v | l k | l | l tr | l | l b | l b | l k]; simpl in *;
    try (apply on_obj_firstn; apply Hm; reflexivity).
  destruct (nth_error s l) as [ob|]; simpl; [| reflexivity].
  apply firstn_snoc, Hlen.
Qed.

Lemma step_length_mut s o l : is_mutating o = Some l -> length (fst (step s o)) = length s.
Proof.
  intros Hm. destruct o as [l0 k v | l0 k | l0 | l0 tr | l0 | l0 b | l0 b | l0 k]; simpl in *;
    try (apply on_obj_length).
  discriminate Hm.
Qed.

Lemma step_length_copy s l b : (l < length s)%nat -> length (fst (step s (Copy l b))) = S (length s).
Proof.
  intros Hl. simpl. destruct (nth_error s l) as [ob|] eqn:En; simpl.
  - rewrite app_length. simpl. lia.
  - apply nth_error_None in En. lia.
Qed.

(* well_scoped, one operation at a time *)
Lemma well_scoped_cons n0 len o r : well_scoped n0 len (o :: r) = true ->
  (forall l, is_mutating o = Some l -> (n0 <= l)%nat) /\
  match o with
  | Copy l _ => (l < len)%nat /\ well_scoped n0 (S len) r = true
  | _ => well_scoped n0 len r = true
  end.
Proof.
  intros Hw. destruct o as [l k v | l k | l | l tr | l | l b | l b | l k]; simpl in Hw;
    try (apply andb_prop in Hw; destruct Hw as [Hw Hr]; apply andb_prop in Hw; destruct Hw as [Hle Hlt];
         apply Nat.leb_le in Hle; split; [intros l' El; simpl in El; inversion El; subst l'; exact Hle| exact Hr]).
  apply andb_prop in Hw. destruct Hw as [Hlt Hr]. apply Nat.ltb_lt in Hlt.
  split; [intros l' El; discriminate El| split; assumption].
Qed.

(* ---------- 2. whole skeletons --------------------------------------------------------------- *)

Theorem skeleton_frame ops : forall s n0, (n0 <= length s)%nat ->
  well_scoped n0 (length s) ops = true -> firstn n0 (run10 s ops) = firstn n0 s.
Proof.
  induction ops as [|o r IH]; intros s n0 Hle Hw; [reflexivity|].
  apply well_scoped_cons in Hw. destruct Hw as [Hm Hr].
  pose proof (step_length s o) as Hsl.
  cbn [run10]. rewrite IH.
  - apply step_preserves_below; assumption.
  - lia.
  - destruct o as [l k v | l k | l | l tr | l | l b | l b | l k];
      try (erewrite step_length_mut by reflexivity; exact Hr).
    destruct Hr as [Hlt Hr]. rewrite step_length_copy by exact Hlt. exact Hr.
Qed.

Theorem arguments_unchanged s ops :
  well_scoped (length s) (length s) ops = true -> firstn (length s) (run10 s ops) = s.
Proof.
  intros Hw. rewrite (skeleton_frame ops s (length s) (Nat.le_refl _) Hw). apply firstn_all.
Qed.

(* ---------- 3. determinism / monotonicity facts ---------------------------------------------- *)

Theorem run10_length s ops : (length s <= length (run10 s ops))%nat.
Proof.
  revert s; induction ops as [|o r IH]; intros s; simpl; [apply Nat.le_refl|].
  pose proof (step_length s o) as Hsl. pose proof (IH (fst (step s o))) as Hr. lia.
Qed.

Theorem run10_app s ops1 ops2 : run10 s (ops1 ++ ops2) = run10 (run10 s ops1) ops2.
Proof.
  revert s; induction ops1 as [|o r IH]; intros s; simpl; [reflexivity|]. apply IH.
Qed.

(* ---------- 4. the transcribed skeletons ----------------------------------------------------- *)

Theorem all_skeletons_well_scoped : forallb (well_scoped 1 1) all_skeletons = true.
Proof. vm_compute; reflexivity. Qed.

Corollary skeletons_pure ob sk : In sk all_skeletons -> firstn 1 (run10 [ob] sk) = [ob].
Proof.
  intros Hin. pose proof all_skeletons_well_scoped as Hall.
  rewrite forallb_forall in Hall. specialize (Hall sk Hin).
  exact (arguments_unchanged [ob] sk Hall).
Qed.

(* ---------- 5. non-vacuity ------------------------------------------------------------------- *)

Example in_place_skeleton_is_caught : well_scoped 1 1 [MakeDense 0%nat] = false.
Proof. vm_compute; reflexivity. Qed.

(* ex_d (Proofs/C09) is a sparse distribution on {0,1}^2 storing two of its four outcomes *)
Example in_place_skeleton_changes_argument :
  let ob := mkObj ex_d (0%nat, 0%nat) in
  d_sparse (o_d ob) = true /\ firstn 1 (run10 [ob] [MakeDense 0%nat]) <> [ob].
Proof.
  split; [reflexivity|]. intros Heq.
  apply (f_equal (map (fun x => d_sparse (o_d x)))) in Heq.
  vm_compute in Heq. discriminate Heq.
Qed.

Example in_place_skeleton_changes_argument_ex :
  exists ob : obj, firstn 1 (run10 [ob] [MakeDense 0%nat]) <> [ob].
Proof. exists (mkObj ex_d (0%nat, 0%nat)). apply in_place_skeleton_changes_argument. Qed.

Print Assumptions skeleton_frame.
Print Assumptions arguments_unchanged.
Print Assumptions skeletons_pure.
