(* Proofs/C17_Proofs.v — the redundancy lattice and Moebius inversion of partial information
   decompositions (C17): the order on nodes, the Moebius identity for the fold dit computes,
   uniqueness and linearity of the atoms, the I_mmi atoms for two sources, the decision rules. *)
From Verif Require Import Info.
From Verif Require Import Measures C16_Model C17_Model.
From Coq Require Import Lia.
Open Scope Q_scope.

(* ---------- generic list facts ---------------------------------------------------------------- *)

Lemma forallb_map_c17 {A B} (g : A -> B) (p : B -> bool) l :
  forallb p (map g l) = forallb (fun x => p (g x)) l.
Proof. induction l as [|x l IH]; simpl; [reflexivity| rewrite IH; reflexivity]. Qed.

Lemma existsb_map_c17 {A B} (g : A -> B) (p : B -> bool) l :
  existsb p (map g l) = existsb (fun x => p (g x)) l.
Proof. induction l as [|x l IH]; simpl; [reflexivity| rewrite IH; reflexivity]. Qed.

Lemma forallb_ext_in {A} (p q : A -> bool) l :
  (forall x, In x l -> p x = q x) -> forallb p l = forallb q l.
Proof.
  induction l as [|x l IH]; simpl; intros H; [reflexivity|].
  rewrite (H x) by (left; reflexivity). rewrite IH; [reflexivity|].
  intros y Hy. apply H. right. exact Hy.
Qed.

Lemma existsb_ext_in {A} (p q : A -> bool) l :
  (forall x, In x l -> p x = q x) -> existsb p l = existsb q l.
Proof.
  induction l as [|x l IH]; simpl; intros H; [reflexivity|].
  rewrite (H x) by (left; reflexivity). rewrite IH; [reflexivity|].
  intros y Hy. apply H. right. exact Hy.
Qed.

Lemma filter_all_true {A} (p : A -> bool) l :
  (forall x, In x l -> p x = true) -> filter p l = l.
Proof.
  induction l as [|x l IH]; simpl; intros H; [reflexivity|].
  rewrite (H x) by (left; reflexivity). rewrite IH; [reflexivity|].
  intros y Hy. apply H. right. exact Hy.
Qed.

(* ---------- 1. the order on nodes ---------------------------------------------------------------- *)

Lemma ssubset_spec a b : ssubset a b = true <-> (forall x, In x a -> In x b).
Proof.
  unfold ssubset. rewrite forallb_forall. split; intros H x Hx.
  - apply nat_mem_In. apply H. exact Hx.
  - apply nat_mem_In. apply H. exact Hx.
Qed.

Lemma ssubset_refl a : ssubset a a = true.
Proof. apply ssubset_spec. intros x Hx. exact Hx. Qed.

Lemma ssubset_trans a b c : ssubset a b = true -> ssubset b c = true -> ssubset a c = true.
Proof.
  rewrite !ssubset_spec. intros Hab Hbc x Hx. apply Hbc. apply Hab. exact Hx.
Qed.

Lemma nle_spec a b :
  nle a b = true <-> (forall B, In B b -> exists A, In A a /\ ssubset A B = true).
Proof.
  unfold nle. rewrite forallb_forall. split; intros H B HB.
  - apply existsb_exists. apply H. exact HB.
  - apply existsb_exists. apply H. exact HB.
Qed.

(* item 1 *)
Theorem nle_refl n : nle n n = true.
Proof.
  apply nle_spec. intros B HB. exists B. split; [exact HB| apply ssubset_refl].
Qed.

(* item 2 *)
Theorem nle_trans a b c : nle a b = true -> nle b c = true -> nle a c = true.
Proof.
  rewrite !nle_spec. intros Hab Hbc C HC.
  destruct (Hbc C HC) as [B [HB HBC]].
  destruct (Hab B HB) as [A [HA HAB]].
  exists A. split; [exact HA| exact (ssubset_trans A B C HAB HBC)].
Qed.

(* item 3 *)
Theorem nle_top k n :
  n <> [] -> (forall A, In A n -> forall i, In i A -> (i < k)%nat) -> nle n (top_node k) = true.
Proof.
  intros Hne Hlt. apply nle_spec. intros B HB.
  unfold top_node in HB. destruct HB as [HB|[]]. subst B.
  destruct n as [|A r]; [congruence|].
  exists A. split; [left; reflexivity|].
  apply ssubset_spec. intros i Hi. unfold range. apply in_seq.
  specialize (Hlt A (or_introl eq_refl) i Hi). lia.
Qed.

Theorem nle_top_antichains_2 : forallb (fun n => nle n (top_node 2)) (antichains 2) = true.
Proof. vm_compute. reflexivity. Qed.

Theorem nle_top_antichains_3 : forallb (fun n => nle n (top_node 3)) (antichains 3) = true.
Proof. vm_compute. reflexivity. Qed.

(* item 4: relabelling the sources.  The general form takes injectivity on a set P of indices that
   contains every index used; the stated form (f injective everywhere) is the instance P := True. *)
Section Relabel.
  Variable f : nat -> nat.
  Variable P : nat -> Prop.
  Hypothesis f_inj_on : forall x y, P x -> P y -> f x = f y -> x = y.

  Definition set_in (A : list nat) : Prop := forall i, In i A -> P i.
  Definition node_in (a : node) : Prop := forall A, In A a -> set_in A.

  Lemma nat_mem_map_on x b : P x -> set_in b -> nat_mem (f x) (map f b) = nat_mem x b.
  Proof.
    intros Hx Hb.
    destruct (nat_mem x b) eqn:E.
    - apply nat_mem_In. apply in_map. apply nat_mem_In. exact E.
    - destruct (nat_mem (f x) (map f b)) eqn:E2; [|reflexivity].
      apply nat_mem_In in E2. apply in_map_iff in E2. destruct E2 as [y [Hfy Hy]].
      assert (Hxy : y = x) by (apply f_inj_on; [apply Hb; exact Hy| exact Hx| exact Hfy]).
      subst y. apply nat_mem_In in Hy. congruence.
  Qed.

  Lemma ssubset_map_on a b : set_in a -> set_in b -> ssubset (map f a) (map f b) = ssubset a b.
  Proof.
    intros Ha Hb. unfold ssubset. rewrite forallb_map_c17.
    apply forallb_ext_in. intros x Hx. apply nat_mem_map_on; [apply Ha; exact Hx| exact Hb].
  Qed.

  Lemma seq_set_map_on a b : set_in a -> set_in b -> seq_set (map f a) (map f b) = seq_set a b.
  Proof.
    intros Ha Hb. unfold seq_set. rewrite !ssubset_map_on by assumption. reflexivity.
  Qed.

  Lemma nle_map_on a b :
    node_in a -> node_in b -> nle (map (map f) a) (map (map f) b) = nle a b.
  Proof.
    intros Ha Hb. unfold nle. rewrite forallb_map_c17.
    apply forallb_ext_in. intros B HB. rewrite existsb_map_c17.
    apply existsb_ext_in. intros A HA.
    apply ssubset_map_on; [apply Ha; exact HA| apply Hb; exact HB].
  Qed.

  Lemma is_antichain_map_on a : node_in a -> is_antichain (map (map f) a) = is_antichain a.
  Proof.
    intros Ha. unfold is_antichain. rewrite forallb_map_c17.
    apply forallb_ext_in. intros A HA. rewrite forallb_map_c17.
    apply forallb_ext_in. intros B HB.
    rewrite seq_set_map_on, ssubset_map_on by (try (apply Ha; assumption)). reflexivity.
  Qed.
End Relabel.

Theorem nle_relabel (f : nat -> nat) a b :
  (forall x y, f x = f y -> x = y) -> nle (map (map f) a) (map (map f) b) = nle a b.
Proof.
  intros Hinj. apply (nle_map_on f (fun _ => True)).
  - intros x y _ _ H. apply Hinj. exact H.
  - intros A _ i _. exact I.
  - intros A _ i _. exact I.
Qed.

Theorem is_antichain_relabel (f : nat -> nat) a :
  (forall x y, f x = f y -> x = y) -> is_antichain (map (map f) a) = is_antichain a.
Proof.
  intros Hinj. apply (is_antichain_map_on f (fun _ => True)).
  - intros x y _ _ H. apply Hinj. exact H.
  - intros A _ i _. exact I.
Qed.

(* every index of the node is a position of perm *)
Definition node_lt (m : nat) (n : node) : bool := forallb (fun A => forallb (fun i => Nat.ltb i m) A) n.

Lemma nat_nodup_NoDup l : nat_nodup l = true -> NoDup l.
Proof.
  induction l as [|x l IH]; simpl; intros H; [constructor|].
  apply andb_true_iff in H. destruct H as [H1 H2].
  constructor; [|apply IH; exact H2].
  intros Hin. apply nat_mem_In in Hin. rewrite Hin in H1. discriminate.
Qed.

Lemma perm_inj_on perm :
  nat_nodup perm = true ->
  forall x y, (x < length perm)%nat -> (y < length perm)%nat ->
              nth x perm 0%nat = nth y perm 0%nat -> x = y.
Proof.
  intros Hnd x y Hx Hy H.
  exact (proj1 (NoDup_nth perm 0%nat) (nat_nodup_NoDup perm Hnd) x y Hx Hy H).
Qed.

Lemma node_lt_in m n : node_lt m n = true -> node_in (fun i => (i < m)%nat) n.
Proof.
  unfold node_lt. intros H A HA i Hi.
  rewrite forallb_forall in H. specialize (H A HA).
  rewrite forallb_forall in H. specialize (H i Hi).
  apply Nat.ltb_lt. exact H.
Qed.

Theorem nle_perm_node perm a b :
  nat_nodup perm = true -> node_lt (length perm) a = true -> node_lt (length perm) b = true ->
  nle (perm_node perm a) (perm_node perm b) = nle a b.
Proof.
  intros Hnd Ha Hb. unfold perm_node.
  apply (nle_map_on (fun i => nth i perm 0%nat) (fun i => (i < length perm)%nat)).
  - exact (perm_inj_on perm Hnd).
  - apply node_lt_in. exact Ha.
  - apply node_lt_in. exact Hb.
Qed.

Theorem is_antichain_perm_node perm a :
  nat_nodup perm = true -> node_lt (length perm) a = true ->
  is_antichain (perm_node perm a) = is_antichain a.
Proof.
  intros Hnd Ha. unfold perm_node.
  apply (is_antichain_map_on (fun i => nth i perm 0%nat) (fun i => (i < length perm)%nat)).
  - exact (perm_inj_on perm Hnd).
  - apply node_lt_in. exact Ha.
Qed.

(* ---------- 2. Moebius inversion as dit computes it --------------------------------------------- *)

Lemma below_sum_app acc1 acc2 n : below_sum (acc1 ++ acc2) n == below_sum acc1 n + below_sum acc2 n.
Proof. unfold below_sum. rewrite filter_app, map_app. apply qsum_app. Qed.

Lemma below_sum_snoc acc m v n :
  below_sum (acc ++ [(m, v)]) n == below_sum acc n + (if nle m n then v else 0).
Proof.
  rewrite below_sum_app. unfold below_sum at 2. simpl.
  destruct (nle m n); simpl; Lqa.lra.
Qed.

Lemma pis_fold_fst red nodes acc :
  map fst (fold_left (pis_step red) nodes acc) = map fst acc ++ nodes.
Proof.
  revert acc. induction nodes as [|n r IH]; intros acc; simpl.
  - rewrite app_nil_r. reflexivity.
  - rewrite IH. unfold pis_step. rewrite map_app. simpl. rewrite <- app_assoc. reflexivity.
Qed.

Lemma pis_list_fst red nodes : map fst (pis_list red nodes) = nodes.
Proof. unfold pis_list. rewrite pis_fold_fst. reflexivity. Qed.

Lemma pis_list_snoc red nodes n :
  pis_list red (nodes ++ [n]) =
  pis_list red nodes ++ [(n, red n - below_sum (pis_list red nodes) n)].
Proof. unfold pis_list. rewrite fold_left_app. reflexivity. Qed.

Lemma mobius_fold red nodes : forall acc,
  linext nodes = true ->
  (forall n m, In n nodes -> In m (map fst acc) -> nle n m = false) ->
  (forall m, In m (map fst acc) -> below_sum acc m == red m) ->
  forall n, In n (map fst acc ++ nodes) ->
            below_sum (fold_left (pis_step red) nodes acc) n == red n.
Proof.
  induction nodes as [|n0 r IH]; intros acc Hlin Hnb Hid n Hn.
  - simpl. rewrite app_nil_r in Hn. apply Hid. exact Hn.
  - simpl in Hlin. apply andb_true_iff in Hlin. destruct Hlin as [Hlin Hr].
    apply andb_true_iff in Hlin. destruct Hlin as [Hrefl Hfa].
    rewrite forallb_forall in Hfa.
    simpl. apply IH.
    + exact Hr.
    + intros x m Hx Hm. unfold pis_step in Hm. rewrite map_app in Hm. simpl in Hm.
      apply in_app_or in Hm. destruct Hm as [Hm|[Hm|[]]].
      * apply Hnb; [right; exact Hx| exact Hm].
      * subst m. specialize (Hfa x Hx). destruct (nle x n0); [discriminate| reflexivity].
    + intros m Hm. unfold pis_step in Hm |- *. rewrite map_app in Hm. simpl in Hm.
      rewrite below_sum_snoc.
      apply in_app_or in Hm. destruct Hm as [Hm|[Hm|[]]].
      * rewrite (Hnb n0 m (or_introl eq_refl) Hm). rewrite (Hid m Hm). Lqa.lra.
      * subst m. rewrite Hrefl. Lqa.lra.
    + unfold pis_step. rewrite map_app. simpl. rewrite <- app_assoc. simpl. exact Hn.
Qed.

(* item 5 *)
Theorem mobius_identity red nodes n :
  linext nodes = true -> In n nodes -> below_sum (pis_list red nodes) n == red n.
Proof.
  intros Hlin Hn. unfold pis_list. apply mobius_fold.
  - exact Hlin.
  - intros x m _ [].
  - intros m [].
  - simpl. exact Hn.
Qed.

(* item 6 *)
Theorem atoms_sum_to_top red nodes t :
  linext nodes = true -> In t nodes -> (forall n, In n nodes -> nle n t = true) ->
  qsum (map snd (pis_list red nodes)) == red t.
Proof.
  intros Hlin Ht Hall.
  rewrite <- (mobius_identity red nodes t Hlin Ht).
  unfold below_sum. rewrite filter_all_true; [reflexivity|].
  intros mv Hmv. apply Hall. rewrite <- (pis_list_fst red nodes).
  apply in_map. exact Hmv.
Qed.

(* item 9: instances *)
Theorem linext_sorted_2 : linext (sorted_nodes 2) = true.
Proof. vm_compute. reflexivity. Qed.

Theorem linext_sorted_3 : linext (sorted_nodes 3) = true.
Proof. vm_compute. reflexivity. Qed.

Theorem length_sorted_3 : length (sorted_nodes 3) = 18%nat.
Proof. vm_compute. reflexivity. Qed.

Theorem sorted_below_top_2 : forallb (fun n => nle n (top_node 2)) (sorted_nodes 2) = true.
Proof. vm_compute. reflexivity. Qed.

Theorem sorted_below_top_3 : forallb (fun n => nle n (top_node 3)) (sorted_nodes 3) = true.
Proof. vm_compute. reflexivity. Qed.

Theorem top_in_sorted_2 : In (top_node 2) (sorted_nodes 2).
Proof. vm_compute. tauto. Qed.

Theorem top_in_sorted_3 : In (top_node 3) (sorted_nodes 3).
Proof. vm_compute. tauto. Qed.

Theorem atoms_sum_to_top_2 red : qsum (map snd (pis_list red (sorted_nodes 2))) == red (top_node 2).
Proof.
  apply atoms_sum_to_top.
  - exact linext_sorted_2.
  - exact top_in_sorted_2.
  - apply forallb_forall. exact sorted_below_top_2.
Qed.

Theorem atoms_sum_to_top_3 red : qsum (map snd (pis_list red (sorted_nodes 3))) == red (top_node 3).
Proof.
  apply atoms_sum_to_top.
  - exact linext_sorted_3.
  - exact top_in_sorted_3.
  - apply forallb_forall. exact sorted_below_top_3.
Qed.

(* ---------- 3. non-negativity of the I_mmi atoms for two sources ------------------------------- *)

Lemma sorted_nodes_2_eq :
  sorted_nodes 2 = [[[1%nat]; [0%nat]]; [[0%nat]]; [[1%nat]]; [[0%nat; 1%nat]]].
Proof. vm_compute. reflexivity. Qed.

(* item 10 *)
Theorem mmi2_atoms_nonneg (mi : list nat -> Q) :
  0 <= mi [0%nat] -> 0 <= mi [1%nat] ->
  mi [0%nat] <= mi [0%nat; 1%nat] -> mi [1%nat] <= mi [0%nat; 1%nat] ->
  Forall (fun nv => 0 <= snd nv) (pis_list (mmi_red mi) (sorted_nodes 2)).
Proof.
  intros H0 H1 H01 H11. rewrite sorted_nodes_2_eq.
  unfold pis_list.
  cbn [fold_left pis_step app below_sum filter map fst snd nle forallb existsb ssubset nat_mem
       Nat.eqb orb andb qsum mmi_red qmin_list].
  destruct (Qle_bool (mi [1%nat]) (mi [0%nat])) eqn:E.
  - apply Qle_bool_iff in E.
    repeat (constructor; [cbn [snd]; Lqa.lra|]). constructor.
  - assert (Hlt : mi [0%nat] < mi [1%nat]).
    { apply Qnot_le_lt. intros Hle. apply Qle_bool_iff in Hle. congruence. }
    repeat (constructor; [cbn [snd]; Lqa.lra|]). constructor.
Qed.

(* ---------- 4. the decision rules ------------------------------------------------------------ *)

(* item 12 *)
Theorem flags_sound o mis total fc fs fn :
  flags_ok true o mis total fc fs fn = true ->
  fc = true /\ fs = true /\ complete_model o = true /\
  exists s, fold_right (fun x acc => match p_pi x, acc with Some v, Some s => Some (s + v) | _, _ => None end)
                       (Some 0) o = Some s /\
            - ((4#100000) * (1 + qabs total)) <= s - total <= (4#100000) * (1 + qabs total).
Proof.
  unfold flags_ok. intros H.
  apply andb_true_iff in H. destruct H as [H Hsum].
  apply andb_true_iff in H. destruct H as [H Hdef].
  apply andb_true_iff in H. destruct H as [H Hnn].
  apply andb_true_iff in H. destruct H as [Hcomp Hcons].
  apply andb_true_iff in Hdef. destruct Hdef as [Hfc Hfs]. subst fc fs.
  split; [reflexivity|]. split; [reflexivity|].
  split; [apply Bool.eqb_prop; exact Hcomp|].
  cbn [andb] in Hsum.
  destruct (fold_right (fun x acc => match p_pi x, acc with Some v, Some s => Some (s + v) | _, _ => None end)
                       (Some 0) o) as [s|]; [|discriminate].
  exists s. split; [reflexivity|].
  unfold qclose in Hsum. apply Qabs_le_spec in Hsum. exact Hsum.
Qed.

(* item 13 *)
Theorem consistent_yes o mis :
  consistent_model o mis = TYes -> mobius_ok (1#2) o = true /\ self_redundancy_ok (1#2) o mis = true.
Proof.
  unfold consistent_model. intros H.
  destruct (mobius_ok (1#2) o && self_redundancy_ok (1#2) o mis) eqn:E.
  - apply andb_true_iff in E. exact E.
  - destruct (mobius_ok 2 o && self_redundancy_ok 2 o mis); discriminate.
Qed.

Theorem mobius_ok_spec s o x r v :
  mobius_ok s o = true -> In x o -> p_red x = Some r -> sum_below o (p_node x) = Some v ->
  - (s * ((1#100000) + (1#100000) * qabs v)) <= r - v <= s * ((1#100000) + (1#100000) * qabs v).
Proof.
  unfold mobius_ok. intros H Hx Hr Hv.
  rewrite forallb_forall in H. specialize (H x Hx).
  rewrite Hr, Hv in H. unfold qclose in H. apply Qabs_le_spec in H. exact H.
Qed.

(* ---------- 5. non-vacuity ------------------------------------------------------------------------ *)

Definition red14 (n : node) : Q :=
  if node_eqb n [[0%nat]; [1%nat]] then 1#4
  else if node_eqb n [[0%nat]] then 1#2
  else if node_eqb n [[1%nat]] then 1#2
  else if node_eqb n [[0%nat; 1%nat]] then 1
  else 0.

(* item 14 *)
Example pis_list_red14 :
  map (fun nv => (fst nv, Qred (snd nv))) (pis_list red14 (sorted_nodes 2)) =
  [([[1%nat]; [0%nat]], 1#4); ([[0%nat]], 1#4); ([[1%nat]], 1#4); ([[0%nat; 1%nat]], 1#4)].
Proof. vm_compute. reflexivity. Qed.

Example pis_list_red14_qeq :
  forallb (fun nv => Qeq_bool (snd nv) (1#4)) (pis_list red14 (sorted_nodes 2)) = true.
Proof. vm_compute. reflexivity. Qed.

(* ---------- 2 (continued). uniqueness and linearity of the atoms ---------------------------------- *)

Definition atoms_eq (a b : node * Q) : Prop := fst a = fst b /\ snd a == snd b.

Lemma linext_snoc l n :
  linext (l ++ [n]) = true ->
  linext l = true /\ nle n n = true /\ forall m, In m l -> nle n m = false.
Proof.
  induction l as [|x l IH]; simpl; intros H.
  - apply andb_true_iff in H. destruct H as [H _].
    apply andb_true_iff in H. destruct H as [H _].
    split; [reflexivity|]. split; [exact H|]. intros m [].
  - apply andb_true_iff in H. destruct H as [H Hr].
    apply andb_true_iff in H. destruct H as [Hx Hfa].
    rewrite forallb_app in Hfa. apply andb_true_iff in Hfa. destruct Hfa as [Hfa Hn].
    simpl in Hn. rewrite andb_true_r in Hn.
    destruct (IH Hr) as [Hl [Hnn Hnb]].
    split; [rewrite Hx, Hfa, Hl; reflexivity|].
    split; [exact Hnn|].
    intros m [Hm|Hm].
    + subst m. destruct (nle n x); [discriminate| reflexivity].
    + apply Hnb. exact Hm.
Qed.

Lemma below_sum_cons m v acc n :
  below_sum ((m, v) :: acc) n == (if nle m n then v else 0) + below_sum acc n.
Proof.
  unfold below_sum. simpl. destruct (nle m n); simpl; Lqa.lra.
Qed.

Lemma below_sum_Forall2 l1 l2 n : Forall2 atoms_eq l1 l2 -> below_sum l1 n == below_sum l2 n.
Proof.
  intros H. induction H as [|[m1 v1] [m2 v2] l1 l2 Hab Hrest IH].
  - reflexivity.
  - destruct Hab as [Hf Hs]. simpl in Hf, Hs. subst m2.
    rewrite !below_sum_cons. rewrite IH. destruct (nle m1 n); Lqa.lra.
Qed.

(* item 7 *)
Theorem mobius_unique red nodes (pi : list (node * Q)) :
  linext nodes = true -> map fst pi = nodes ->
  (forall n, In n nodes -> below_sum pi n == red n) ->
  Forall2 (fun a b => fst a = fst b /\ snd a == snd b) pi (pis_list red nodes).
Proof.
  revert pi. induction nodes as [|n0 nodes IH] using rev_ind; intros pi Hlin Hfst Hid.
  - destruct pi; [|discriminate]. constructor.
  - apply linext_snoc in Hlin. destruct Hlin as [Hl [Hrefl Hnb]].
    apply map_eq_app in Hfst. destruct Hfst as [pi' [lst [Epi [Hfst' Hlast]]]].
    destruct lst as [|[m v] [|x lst]]; simpl in Hlast; try discriminate.
    injection Hlast as Hm. subst m pi.
    assert (IH' : Forall2 atoms_eq pi' (pis_list red nodes)).
    { apply IH; [exact Hl| exact Hfst'|].
      intros n Hn. rewrite <- (Hid n) by (apply in_or_app; left; exact Hn).
      rewrite below_sum_snoc. rewrite (Hnb n Hn). Lqa.lra. }
    rewrite pis_list_snoc. apply Forall2_app; [exact IH'|].
    constructor; [|constructor]. split; [reflexivity|]. cbn [snd].
    assert (Hn0 : below_sum (pi' ++ [(n0, v)]) n0 == red n0).
    { apply Hid. apply in_or_app. right. left. reflexivity. }
    rewrite below_sum_snoc, Hrefl in Hn0.
    rewrite <- (below_sum_Forall2 _ _ n0 IH'). Lqa.lra.
Qed.

(* the index form of the same statement *)
Lemma Forall2_atoms_nth l1 l2 :
  Forall2 atoms_eq l1 l2 -> forall i, nth i (map snd l1) 0 == nth i (map snd l2) 0.
Proof.
  intros H. induction H as [|a b l1 l2 Hab Hrest IH]; intros i.
  - reflexivity.
  - destruct i as [|i]; simpl; [exact (proj2 Hab)| apply IH].
Qed.

Corollary mobius_unique_nth red nodes (pi : list (node * Q)) i :
  linext nodes = true -> map fst pi = nodes ->
  (forall n, In n nodes -> below_sum pi n == red n) ->
  nth i (map snd pi) 0 == nth i (map snd (pis_list red nodes)) 0.
Proof.
  intros Hlin Hfst Hid. apply Forall2_atoms_nth.
  exact (mobius_unique red nodes pi Hlin Hfst Hid).
Qed.

(* item 8: linearity.  lin3 a b l l1 l2: the three lists carry the same nodes and v == a v1 + b v2 *)
Inductive lin3 (a b : Q) : list (node * Q) -> list (node * Q) -> list (node * Q) -> Prop :=
| lin3_nil : lin3 a b [] [] []
| lin3_cons n v v1 v2 l l1 l2 :
    v == a * v1 + b * v2 -> lin3 a b l l1 l2 -> lin3 a b ((n, v) :: l) ((n, v1) :: l1) ((n, v2) :: l2).

Lemma lin3_app a b l l1 l2 m m1 m2 :
  lin3 a b l l1 l2 -> lin3 a b m m1 m2 -> lin3 a b (l ++ m) (l1 ++ m1) (l2 ++ m2).
Proof.
  intros H Hm. induction H as [|n v v1 v2 l l1 l2 Hv Hrest IH]; simpl; [exact Hm|].
  constructor; [exact Hv| exact IH].
Qed.

Lemma lin3_below_sum a b l l1 l2 n :
  lin3 a b l l1 l2 -> below_sum l n == a * below_sum l1 n + b * below_sum l2 n.
Proof.
  intros H. induction H as [|m v v1 v2 l l1 l2 Hv Hrest IH].
  - unfold below_sum. simpl. Lqa.lra.
  - rewrite !below_sum_cons. rewrite IH. destruct (nle m n); [rewrite Hv|]; Lqa.lra.
Qed.

Lemma pis_list_lin3 a b red r1 r2 nodes :
  (forall n, red n == a * r1 n + b * r2 n) ->
  lin3 a b (pis_list red nodes) (pis_list r1 nodes) (pis_list r2 nodes).
Proof.
  intros Hred. induction nodes as [|n0 nodes IH] using rev_ind.
  - constructor.
  - rewrite !pis_list_snoc. apply lin3_app; [exact IH|].
    constructor; [|constructor].
    rewrite (lin3_below_sum a b _ _ _ n0 IH). rewrite (Hred n0). Lqa.lra.
Qed.

Lemma lin3_nth a b l l1 l2 :
  lin3 a b l l1 l2 ->
  forall i, nth i (map snd l) 0 == a * nth i (map snd l1) 0 + b * nth i (map snd l2) 0.
Proof.
  intros H. induction H as [|n v v1 v2 l l1 l2 Hv Hrest IH]; intros i.
  - destruct i; simpl; Lqa.lra.
  - destruct i as [|i]; simpl; [exact Hv| apply IH].
Qed.

Lemma lin3_Forall2_combine a b l l1 l2 :
  lin3 a b l l1 l2 ->
  Forall2 (fun x yz => fst x = fst (fst yz) /\ fst x = fst (snd yz) /\
                       snd x == a * snd (fst yz) + b * snd (snd yz)) l (combine l1 l2).
Proof.
  intros H. induction H as [|n v v1 v2 l l1 l2 Hv Hrest IH]; simpl; constructor.
  - simpl. split; [reflexivity|]. split; [reflexivity| exact Hv].
  - exact IH.
Qed.

Theorem pis_linear a b r1 r2 nodes :
  let L := pis_list (fun n => a * r1 n + b * r2 n) nodes in
  map fst L = nodes /\ map fst (pis_list r1 nodes) = nodes /\ map fst (pis_list r2 nodes) = nodes /\
  forall i, nth i (map snd L) 0 ==
            a * nth i (map snd (pis_list r1 nodes)) 0 + b * nth i (map snd (pis_list r2 nodes)) 0.
Proof.
  cbv zeta. rewrite !pis_list_fst. repeat split.
  apply lin3_nth. apply pis_list_lin3. intros n. reflexivity.
Qed.

Theorem pis_linear_Forall2 a b r1 r2 nodes :
  Forall2 (fun x yz => fst x = fst (fst yz) /\ fst x = fst (snd yz) /\
                       snd x == a * snd (fst yz) + b * snd (snd yz))
          (pis_list (fun n => a * r1 n + b * r2 n) nodes)
          (combine (pis_list r1 nodes) (pis_list r2 nodes)).
Proof.
  apply lin3_Forall2_combine. apply pis_list_lin3. intros n. reflexivity.
Qed.

(* the atoms depend on the redundancy function only up to == *)
Lemma lin3_one_zero l l1 l2 : lin3 1 0 l l1 l2 -> Forall2 atoms_eq l l1.
Proof.
  intros H. induction H as [|n v v1 v2 l l1 l2 Hv Hrest IH]; constructor.
  - split; [reflexivity|]. simpl. rewrite Hv. Lqa.lra.
  - exact IH.
Qed.

Theorem pis_list_ext red red' nodes :
  (forall n, red n == red' n) -> Forall2 atoms_eq (pis_list red nodes) (pis_list red' nodes).
Proof.
  intros Hext.
  apply (lin3_one_zero _ _ (pis_list red' nodes)).
  apply pis_list_lin3. intros n. rewrite (Hext n). Lqa.lra.
Qed.

(* ---------- 3 (continued). item 11: non-negative combinations keep the atoms non-negative ---------- *)

Definition atoms_nonneg (l : list (node * Q)) : Prop := Forall (fun nv => 0 <= snd nv) l.

Lemma lin3_nonneg a b l l1 l2 :
  lin3 a b l l1 l2 -> 0 <= a -> 0 <= b -> atoms_nonneg l1 -> atoms_nonneg l2 -> atoms_nonneg l.
Proof.
  unfold atoms_nonneg.
  intros H Ha Hb. induction H as [|n v v1 v2 l l1 l2 Hv Hrest IH]; intros H1 H2.
  - constructor.
  - inversion H1 as [|x1 t1 Hv1 Ht1]; subst. inversion H2 as [|x2 t2 Hv2 Ht2]; subst.
    cbn [snd] in Hv1, Hv2. constructor; [|apply IH; assumption].
    cbn [snd]. rewrite Hv.
    assert (Hp1 : 0 <= a * v1) by (apply Qmult_le_0_compat; assumption).
    assert (Hp2 : 0 <= b * v2) by (apply Qmult_le_0_compat; assumption).
    Lqa.lra.
Qed.

Lemma lin3_zero_nonneg l l1 l2 : lin3 0 0 l l1 l2 -> atoms_nonneg l.
Proof.
  unfold atoms_nonneg.
  intros H. induction H as [|n v v1 v2 l l1 l2 Hv Hrest IH]; constructor; [|exact IH].
  cbn [snd]. rewrite Hv. Lqa.lra.
Qed.

(* a weighted sum (weights >= 0) of redundancy functions whose atoms are non-negative has non-negative atoms *)
Theorem weighted_atoms_nonneg {T} (ts : list T) (p : T -> Q) (r : T -> node -> Q) nodes :
  (forall t, In t ts -> 0 <= p t) ->
  (forall t, In t ts -> Forall (fun nv => 0 <= snd nv) (pis_list (r t) nodes)) ->
  Forall (fun nv => 0 <= snd nv) (pis_list (fun n => qsum (map (fun t => p t * r t n) ts)) nodes).
Proof.
  induction ts as [|t ts IH]; intros Hp Hr.
  - apply (lin3_zero_nonneg _ (pis_list (fun _ => 0) nodes) (pis_list (fun _ => 0) nodes)).
    apply pis_list_lin3. intros n. simpl. Lqa.lra.
  - apply (lin3_nonneg (p t) 1 _ (pis_list (r t) nodes)
                       (pis_list (fun n => qsum (map (fun t => p t * r t n) ts)) nodes)).
    + apply pis_list_lin3. intros n. simpl. Lqa.lra.
    + apply Hp. left. reflexivity.
    + Lqa.lra.
    + apply Hr. left. reflexivity.
    + apply IH.
      * intros t' Ht'. apply Hp. right. exact Ht'.
      * intros t' Ht'. apply Hr. right. exact Ht'.
Qed.

(* the I_min shape for two sources: s t = the specific information of the target value t *)
Theorem imin2_atoms_nonneg {T} (ts : list T) (p : T -> Q) (s : T -> list nat -> Q) :
  (forall t, In t ts -> 0 <= p t) ->
  (forall t, In t ts -> 0 <= s t [0%nat] /\ 0 <= s t [1%nat] /\
                        s t [0%nat] <= s t [0%nat; 1%nat] /\ s t [1%nat] <= s t [0%nat; 1%nat]) ->
  Forall (fun nv => 0 <= snd nv)
         (pis_list (fun n => qsum (map (fun t => p t * mmi_red (s t) n) ts)) (sorted_nodes 2)).
Proof.
  intros Hp Hs. apply (weighted_atoms_nonneg ts p (fun t => mmi_red (s t))); [exact Hp|].
  intros t Ht. destruct (Hs t Ht) as [H0 [H1 [H01 H11]]].
  apply mmi2_atoms_nonneg; assumption.
Qed.

(* ---------- four sources: one evaluation of sorted_nodes 4 ------------------------------------- *)

Definition node_dec (a b : node) : {a = b} + {a <> b} := list_eq_dec (list_eq_dec Nat.eq_dec) a b.

Definition check_sorted (k : nat) : bool :=
  let l := sorted_nodes k in
  linext l && forallb (fun n => nle n (top_node k)) l &&
  existsb (fun n => if node_dec n (top_node k) then true else false) l.

Lemma check_sorted_spec k :
  check_sorted k = true ->
  linext (sorted_nodes k) = true /\ In (top_node k) (sorted_nodes k) /\
  forall n, In n (sorted_nodes k) -> nle n (top_node k) = true.
Proof.
  unfold check_sorted. cbv zeta. intros H.
  apply andb_true_iff in H. destruct H as [H Hex].
  apply andb_true_iff in H. destruct H as [Hlin Hall].
  split; [exact Hlin|]. split.
  - apply existsb_exists in Hex. destruct Hex as [n [Hn Hd]].
    destruct (node_dec n (top_node k)) as [E|E]; [subst n; exact Hn| discriminate].
  - apply forallb_forall. exact Hall.
Qed.

Lemma check_sorted_4 : check_sorted 4 = true.
Proof. vm_compute. reflexivity. Qed.

Theorem linext_sorted_4 : linext (sorted_nodes 4) = true.
Proof. exact (proj1 (check_sorted_spec 4 check_sorted_4)). Qed.

Theorem atoms_sum_to_top_4 red : qsum (map snd (pis_list red (sorted_nodes 4))) == red (top_node 4).
Proof.
  destruct (check_sorted_spec 4 check_sorted_4) as [Hlin [Hin Hall]].
  apply atoms_sum_to_top; assumption.
Qed.

Theorem nle_top_antichains_4 : forallb (fun n => nle n (top_node 4)) (antichains 4) = true.
Proof. vm_compute. reflexivity. Qed.

Print Assumptions mobius_identity.
Print Assumptions atoms_sum_to_top.
Print Assumptions mmi2_atoms_nonneg.
Print Assumptions mobius_unique.
Print Assumptions pis_linear.
Print Assumptions imin2_atoms_nonneg.
Print Assumptions flags_sound.
Print Assumptions atoms_sum_to_top_4.
