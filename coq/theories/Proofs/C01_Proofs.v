(* Proofs/C01_Proofs.v — construction yields exactly the specified table, or is rejected. *)
From Verif Require Import Dist Dist_Proofs C01_Model.
Open Scope Q_scope.

(* what `construct s = Ok d` (or OkOrErr d _) tells about d *)
Definition built (s : spec) (d : dist) : Prop :=
  exists b ss a,
    resolve_base s = Some b /\ resolve_ss s = Some (ss, a) /\
    length (sp_outs s) = length (sp_vals s) /\
    all_in_ss ss (combine (sp_outs s) (sp_vals s)) = true /\
    d = mkDist ss (if sp_sparse s
                   then (if sp_trim s then trim b (reorder ss (combine (sp_outs s) (sp_vals s)))
                         else reorder ss (combine (sp_outs s) (sp_vals s)))
                   else dense_of ss (reorder ss (combine (sp_outs s) (sp_vals s))))
                (sp_sparse s) b None.

Lemma construct_built s d : (construct s = Ok d \/ exists e, construct s = OkOrErr d e) -> built s d.
Proof.
  unfold construct, built.
  destruct (resolve_base s) as [b|]; [| intros [H|[e H]]; discriminate].
  destruct (negb (Nat.eqb (length (sp_outs s)) (length (sp_vals s)))) eqn:El; [intros [H|[e H]]; discriminate|].
  destruct (Nat.eqb (length (sp_outs s)) 0 && _); [intros [H|[e H]]; discriminate|].
  destruct (resolve_ss s) as [[ss a]|]; [| intros [H|[e H]]; discriminate].
  destruct (negb (all_in_ss ss (combine (sp_outs s) (sp_vals s)))) eqn:Ea; [intros [H|[e H]]; discriminate|].
  intros H. exists b, ss, a.
  apply negb_false_iff in El. apply Nat.eqb_eq in El. apply negb_false_iff in Ea.
  repeat split; try assumption.
  destruct (norm_ok b _); [| destruct H as [H|[e H]]; discriminate|].
  - destruct (probs_ok b _); destruct H as [H|[e H]]; try discriminate; inversion H; reflexivity.
  - destruct H as [H|[e H]]; try discriminate; inversion H; reflexivity.
Qed.

Lemma all_in_ss_mem ss os vs o :
  all_in_ss ss (combine os vs) = true -> length os = length vs -> In o os -> ss_mem ss o = true.
Proof.
  unfold all_in_ss. rewrite forallb_forall. intros H Hl Hin.
  revert vs Hl H; induction os as [|k os IH]; intros [|v vs] Hl H; simpl in *; try contradiction; try discriminate.
  destruct Hin as [->|Hin].
  - apply (H (o, v)). left; reflexivity.
  - apply (IH Hin vs); [lia| intros x Hx; apply H; right; exact Hx].
Qed.

(* every specified outcome reads back exactly, unless it is null and trimmed (then it reads 0) *)
Theorem construct_lookup_specified s d o v :
  built s d -> NoDup (sp_outs s) -> NoDup (ss_enum (d_ss d)) ->
  In (o, v) (combine (sp_outs s) (sp_vals s)) ->
  lookup d o = Some v \/
  (sp_sparse s = true /\ sp_trim s = true /\ is_null (d_base d) v = true /\ lookup d o = Some 0).
Proof.
  intros [b [ss [a [Hb [Hss [Hl [Hin ->]]]]]]] Hnd Hnde Hov. simpl in *.
  assert (Hmem: ss_mem ss o = true).
  { apply (all_in_ss_mem ss (sp_outs s) (sp_vals s)); try assumption. apply in_combine_l in Hov. exact Hov. }
  assert (Hm: omem o (ss_enum ss) = true) by (apply omem_In, ss_mem_In, Hmem).
  assert (Hf: find_key o (combine (sp_outs s) (sp_vals s)) = Some v) by (apply find_key_combine; assumption).
  unfold lookup; simpl. rewrite Hmem.
  destruct (sp_sparse s) eqn:Es.
  - destruct (sp_trim s) eqn:Et.
    + unfold get0, trim.
      rewrite (find_key_filter (fun v => negb (is_null b v))) by (apply NoDup_keys_reorder, Hnde).
      rewrite find_key_reorder, Hm, Hf.
      destruct (is_null b v) eqn:En; simpl; [right; auto| left; reflexivity].
    + left. rewrite get0_reorder by exact Hm. unfold get0. rewrite Hf. reflexivity.
  - left. unfold get0. rewrite find_key_dense_of, Hm. rewrite get0_reorder by exact Hm.
    unfold get0. rewrite Hf. reflexivity.
Qed.

(* every other member of the sample space reads as the null probability; outsiders are rejected *)
Theorem construct_lookup_unspecified s d o :
  built s d -> NoDup (ss_enum (d_ss d)) -> ~ In o (sp_outs s) ->
  lookup d o = if ss_mem (d_ss d) o then Some 0 else None.
Proof.
  intros [b [ss [a [Hb [Hss [Hl [Hin ->]]]]]]] Hnde Hno. unfold lookup; simpl in *.
  destruct (ss_mem ss o) eqn:Hmem; [| reflexivity].
  assert (Hm: omem o (ss_enum ss) = true) by (apply omem_In, ss_mem_In, Hmem).
  assert (Hf: find_key o (combine (sp_outs s) (sp_vals s)) = None) by (apply find_key_notin_combine, Hno).
  f_equal.
  destruct (sp_sparse s).
  - destruct (sp_trim s).
    + unfold get0, trim.
      rewrite (find_key_filter (fun v => negb (is_null b v))) by (apply NoDup_keys_reorder, Hnde).
      rewrite find_key_reorder, Hm, Hf. reflexivity.
    + rewrite get0_reorder by exact Hm. unfold get0. rewrite Hf. reflexivity.
  - unfold get0. rewrite find_key_dense_of, Hm. rewrite get0_reorder by exact Hm.
    unfold get0. rewrite Hf. reflexivity.
Qed.

(* aligned, duplicate-free, ordered like the sample space, complete when dense *)
Theorem construct_WF s d : built s d -> NoDup (ss_enum (d_ss d)) -> WF d.
Proof.
  intros [b [ss [a [Hb [Hss [Hl [Hin ->]]]]]]] Hnde. simpl in *.
  destruct (sp_sparse s) eqn:Es; [destruct (sp_trim s) eqn:Et|].
  - pose proof (NoDup_keys_build ss (combine (sp_outs s) (sp_vals s)) true b Hnde) as H1.
    pose proof (keys_build_order ss (combine (sp_outs s) (sp_vals s)) true b Hnde) as H2.
    unfold build in H1, H2.
    constructor; simpl; try assumption.
    + intros o Ho. apply ss_mem_In. apply (keys_build_sub ss (combine (sp_outs s) (sp_vals s)) true b). exact Ho.
    + discriminate.
  - constructor; simpl.
    + apply NoDup_keys_reorder, Hnde.
    + intros o Ho. apply ss_mem_In. rewrite keys_reorder in Ho. apply filter_In in Ho. tauto.
    + apply keys_reorder_order, Hnde.
    + discriminate.
  - constructor; simpl.
    + rewrite keys_dense_of. exact Hnde.
    + intros o Ho. rewrite keys_dense_of in Ho. apply ss_mem_In, Ho.
    + rewrite keys_dense_of.
      rewrite <- (filter_ext_in (fun _ => true)).
      * clear. induction (ss_enum ss) as [|x l IH]; simpl; [reflexivity| rewrite <- IH; reflexivity].
      * intros o Ho. symmetry. apply omem_In, Ho.
    + intros _. apply keys_dense_of.
Qed.

(* sparse and trimmed: no null value is stored *)
Theorem construct_trimmed s d o v :
  built s d -> sp_sparse s = true -> sp_trim s = true -> In (o, v) (d_tbl d) -> is_null (d_base d) v = false.
Proof.
  intros [b [ss [a [Hb [Hss [Hl [Hin ->]]]]]]] Es Et. simpl. rewrite Es, Et. unfold trim.
  intros H. apply filter_In in H as [_ H]. simpl in H. apply negb_true_iff, H.
Qed.

(* dense: every member of the sample space is stored *)
Theorem construct_dense s d :
  built s d -> sp_sparse s = false -> keys (d_tbl d) = ss_enum (d_ss d).
Proof.
  intros [b [ss [a [Hb [Hss [Hl [Hin ->]]]]]]] Es. simpl. rewrite Es. apply keys_dense_of.
Qed.

(* ---- rejections ---------------------------------------------------------------------------- *)

Theorem reject_invalid_base s : sp_base s = BInvalid -> construct s = Err EInvalidBase.
Proof. intros H. unfold construct, resolve_base. rewrite H. reflexivity. Qed.

Theorem reject_length_mismatch s :
  sp_base s <> BInvalid -> length (sp_outs s) <> length (sp_vals s) -> construct s = Err EInvalidDistribution.
Proof.
  intros Hb Hl. unfold construct.
  destruct (resolve_base s) as [b|] eqn:E.
  - apply Nat.eqb_neq in Hl. rewrite Hl. reflexivity.
  - unfold resolve_base in E. destruct (sp_base s); try discriminate. congruence.
Qed.

Theorem reject_empty s :
  sp_base s <> BInvalid -> sp_outs s = [] -> sp_vals s = [] -> sp_ss s = SSNone ->
  construct s = Err EInvalidDistribution.
Proof.
  intros Hb Ho Hv Hs. unfold construct.
  destruct (resolve_base s) as [b|] eqn:E.
  - rewrite Ho, Hv, Hs. reflexivity.
  - unfold resolve_base in E. destruct (sp_base s); try discriminate. congruence.
Qed.

Theorem reject_ragged s b :
  resolve_base s = Some b -> length (sp_outs s) = length (sp_vals s) -> sp_outs s <> [] ->
  sp_joint s = true -> sp_ss s = SSNone -> same_lengths (sp_outs s) = false ->
  construct s = Err EDitException.
Proof.
  intros Hb Hl Hne Hj Hs Hr. unfold construct. rewrite Hb.
  apply Nat.eqb_eq in Hl. rewrite Hl. simpl.
  destruct (sp_outs s) as [|o os] eqn:Eo; [congruence|]. simpl.
  unfold resolve_ss. rewrite Hj, Hs, Eo, Hr. reflexivity.
Qed.

Theorem reject_outside s b ss a :
  resolve_base s = Some b -> length (sp_outs s) = length (sp_vals s) ->
  (sp_outs s <> [] \/ sp_ss s <> SSNone) ->
  resolve_ss s = Some (ss, a) -> all_in_ss ss (combine (sp_outs s) (sp_vals s)) = false ->
  construct s = Err EInvalidOutcome.
Proof.
  intros Hb Hl Hne Hss Hout. unfold construct. rewrite Hb.
  apply Nat.eqb_eq in Hl. rewrite Hl. simpl.
  assert (E: (Nat.eqb (length (sp_outs s)) 0 && match sp_ss s with SSNone => true | _ => false end) = false).
  { destruct Hne as [H|H].
    - destruct (sp_outs s); [congruence| reflexivity].
    - destruct (sp_ss s); try congruence; apply andb_false_r. }
  rewrite E, Hss, Hout. reflexivity.
Qed.

Theorem reject_unnormalised s b ss a :
  resolve_base s = Some b -> length (sp_outs s) = length (sp_vals s) ->
  (sp_outs s <> [] \/ sp_ss s <> SSNone) ->
  resolve_ss s = Some (ss, a) -> all_in_ss ss (combine (sp_outs s) (sp_vals s)) = true ->
  norm_ok b (mass (if sp_sparse s
                   then (if sp_trim s then trim b (reorder ss (combine (sp_outs s) (sp_vals s)))
                         else reorder ss (combine (sp_outs s) (sp_vals s)))
                   else dense_of ss (reorder ss (combine (sp_outs s) (sp_vals s))))) = No ->
  construct s = Err EInvalidNormalization.
Proof.
  intros Hb Hl Hne Hss Hin Hn. unfold construct. rewrite Hb.
  apply Nat.eqb_eq in Hl. rewrite Hl. simpl.
  assert (E: (Nat.eqb (length (sp_outs s)) 0 && match sp_ss s with SSNone => true | _ => false end) = false).
  { destruct Hne as [H|H].
    - destruct (sp_outs s); [congruence| reflexivity].
    - destruct (sp_ss s); try congruence; apply andb_false_r. }
  rewrite E, Hss, Hin. simpl. rewrite Hn. reflexivity.
Qed.

(* the linear range test rejects exactly the values outside [-1e-8, 1 + 1e-8 + 1e-5] *)
Theorem prob_ok_linear p :
  prob_ok Linear p = No <-> (p < - null_tol \/ 1 + (1#100000000) + (1#100000) < p).
Proof.
  unfold prob_ok.
  destruct (Qle_bool (- null_tol) p) eqn:A, (Qle_bool p (1 + (1 # 100000000) + (1 # 100000))) eqn:B; simpl.
  - apply Qle_bool_iff in A, B. split; [discriminate| intros [H|H]; lra].
  - split; [intros _; right| reflexivity].
    apply Qnot_le_lt. intro H. apply Qle_bool_iff in H. congruence.
  - split; [intros _; left| reflexivity].
    apply Qnot_le_lt. intro H. apply Qle_bool_iff in H. congruence.
  - split; [intros _; left| reflexivity].
    apply Qnot_le_lt. intro H. apply Qle_bool_iff in H. congruence.
Qed.

Theorem norm_ok_linear t :
  norm_ok Linear t = Yes <-> (- ((1#100000000) + (1#100000)) <= t - 1 <= (1#100000000) + (1#100000)).
Proof.
  unfold norm_ok. destruct (Qabs_le (t - 1) _) eqn:E.
  - apply Qabs_le_spec in E. tauto.
  - split; [discriminate|]. intros H. apply Qabs_le_spec in H. congruence.
Qed.

(* non-vacuity *)
Definition ex_spec : spec :=
  mkSpec true [[1;0];[0;2];[0;0]]%nat [1#2; 1#2; 0] SSNone (BGiven Linear) true true true.

Example ex_construct :
  construct ex_spec =
  Ok (mkDist (Cart [[0;1];[0;2]]%nat) [([0;2]%nat, 1#2); ([1;0]%nat, 1#2)] true Linear None).
Proof. vm_compute. reflexivity. Qed.

Example ex_built : exists d, built ex_spec d /\ NoDup (sp_outs ex_spec) /\ NoDup (ss_enum (d_ss d)).
Proof.
  eexists. split; [apply construct_built; left; apply ex_construct|].
  split; simpl; repeat constructor; simpl; intuition discriminate.
Qed.
