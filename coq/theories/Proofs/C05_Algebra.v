(* Proofs/C05_Algebra.v — algebra of the entropy combinations of Model/Measures.v.
   Part 1: nset is a canonical form (extensionally equal lists have equal nset).
   Part 2: heval is linear.
   Part 3: identities between the Shannon-type measures, for an arbitrary entropy function h. *)
From Verif Require Import Measures.
From Coq Require Import Permutation Sorted.
Open Scope R_scope.

(* ------------------------------------------------------------------------------------------ *)
(* Part 1 — canonical sets *)

Lemma ninsert_In y x l : In y (ninsert x l) <-> y = x \/ In y l.
Proof.
  induction l as [|a l IH]; simpl.
  - intuition congruence.
  - destruct (Nat.leb x a); simpl; [|rewrite IH]; intuition congruence.
Qed.

Lemma nsort_In y l : In y (nsort l) <-> In y l.
Proof.
  induction l as [|a l IH]; simpl; [tauto|].
  rewrite ninsert_In, IH. intuition congruence.
Qed.

Lemma ndedup_In y l : In y (ndedup l) <-> In y l.
Proof.
  induction l as [|a l IH]; simpl; [tauto|].
  destruct (nat_mem a l) eqn:E; simpl; rewrite IH; [|tauto].
  apply nat_mem_In in E. split; [auto|]. intros [H|H]; [subst; exact E| exact H].
Qed.

Lemma ndedup_NoDup l : NoDup (ndedup l).
Proof.
  induction l as [|a l IH]; simpl; [constructor|].
  destruct (nat_mem a l) eqn:E; [exact IH|].
  constructor; [|exact IH]. rewrite ndedup_In. intro H. apply nat_mem_In in H. congruence.
Qed.

Theorem In_nset x S : In x (nset S) <-> In x S.
Proof. unfold nset. rewrite nsort_In. apply ndedup_In. Qed.

Lemma ninsert_sorted x l : StronglySorted lt l -> ~ In x l -> StronglySorted lt (ninsert x l).
Proof.
  induction l as [|a l IH]; intros Hs Hn; simpl.
  - constructor; constructor.
  - inversion Hs as [|a' l' Hs' Hall]; subst.
    destruct (Nat.leb x a) eqn:E.
    + apply Nat.leb_le in E.
      assert (Hne : a <> x) by (intro Heq; apply Hn; left; exact Heq).
      constructor; [exact Hs|]. constructor; [lia|].
      eapply Forall_impl; [|exact Hall]. intros z Hz. simpl in Hz. lia.
    + apply Nat.leb_gt in E. constructor.
      * apply IH; [exact Hs'| intro Hin; apply Hn; right; exact Hin].
      * apply Forall_forall. intros z Hz. apply ninsert_In in Hz as [Hz|Hz]; [subst; exact E|].
        rewrite Forall_forall in Hall. apply Hall, Hz.
Qed.

Lemma nsort_sorted l : NoDup l -> StronglySorted lt (nsort l).
Proof.
  induction l as [|a l IH]; intros Hnd; simpl; [constructor|].
  inversion Hnd as [|a' l' Hni Hnd']; subst.
  apply ninsert_sorted; [apply IH, Hnd'| rewrite nsort_In; exact Hni].
Qed.

Lemma nset_sorted S : StronglySorted lt (nset S).
Proof. apply nsort_sorted, ndedup_NoDup. Qed.

Lemma ssorted_lt_NoDup l : StronglySorted lt l -> NoDup l.
Proof.
  induction 1 as [|a l Hs IH Hall]; constructor; [|exact IH].
  intro Hin. rewrite Forall_forall in Hall. apply Hall in Hin. lia.
Qed.

Lemma ssorted_lt_le l : StronglySorted lt l -> StronglySorted le l.
Proof.
  induction 1 as [|a l Hs IH Hall]; constructor; [exact IH|].
  eapply Forall_impl; [|exact Hall]. intros z Hz. simpl in Hz. lia.
Qed.

Lemma nset_NoDup S : NoDup (nset S).
Proof. apply ssorted_lt_NoDup, nset_sorted. Qed.

Lemma nset_Sorted_le S : Sorted le (nset S).
Proof. apply StronglySorted_Sorted, ssorted_lt_le, nset_sorted. Qed.

(* sorting preserves NoDup *)
Lemma nsort_NoDup l : NoDup l -> NoDup (nsort l).
Proof. intros Hnd. apply ssorted_lt_NoDup, nsort_sorted, Hnd. Qed.

Lemma sorted_ext l1 : forall l2, StronglySorted lt l1 -> StronglySorted lt l2 ->
  (forall x, In x l1 <-> In x l2) -> l1 = l2.
Proof.
  induction l1 as [|a l1 IH]; intros [|b l2] H1 H2 Hx.
  - reflexivity.
  - exfalso. destruct (Hx b) as [_ Hb]. exact (Hb (or_introl eq_refl)).
  - exfalso. destruct (Hx a) as [Ha _]. exact (Ha (or_introl eq_refl)).
  - inversion H1 as [|a' l1' H1' A1]; inversion H2 as [|b' l2' H2' A2]; subst.
    rewrite Forall_forall in A1, A2.
    assert (Hab : a = b).
    { destruct (Hx a) as [Ha _]. destruct (Hx b) as [_ Hb].
      specialize (Ha (or_introl eq_refl)). specialize (Hb (or_introl eq_refl)).
      simpl in Ha, Hb. destruct Ha as [Ha|Ha]; [congruence|]. destruct Hb as [Hb|Hb]; [congruence|].
      apply A2 in Ha. apply A1 in Hb. lia. }
    subst b. f_equal. apply IH; [exact H1'| exact H2'|].
    intros x. split; intros Hin.
    + destruct (Hx x) as [Hf _]. destruct (Hf (or_intror Hin)) as [He|He]; [|exact He].
      subst x. apply A1 in Hin. lia.
    + destruct (Hx x) as [_ Hf]. destruct (Hf (or_intror Hin)) as [He|He]; [|exact He].
      subst x. apply A2 in Hin. lia.
Qed.

Theorem nset_canonical S T : (forall x, In x S <-> In x T) -> nset S = nset T.
Proof.
  intros Hx. apply sorted_ext; [apply nset_sorted| apply nset_sorted|].
  intros x. rewrite !In_nset. apply Hx.
Qed.

(* membership normalisation and a solver for extensional goals *)
Lemma In_ndiff x A B : In x (ndiff A B) <-> In x A /\ ~ In x B.
Proof.
  unfold ndiff. rewrite filter_In, negb_true_iff. split; intros [Ha Hb]; split; try exact Ha.
  - intro Hin. apply nat_mem_In in Hin. congruence.
  - destruct (nat_mem x B) eqn:E; [|reflexivity]. apply nat_mem_In in E. contradiction.
Qed.

Ltac set_norm :=
  unfold others, nunions, nunion; cbn [concat];
  repeat (rewrite In_nset || rewrite in_app_iff || rewrite In_ndiff).
Ltac set_in := let x := fresh "x" in intro x; set_norm; simpl In; tauto.
Ltac seteq := unfold others, nunions, nunion; apply nset_canonical; set_in.

Theorem nset_idem S : nset (nset S) = nset S.
Proof. apply nset_canonical. set_in. Qed.

Theorem nunion_comm S T : nunion S T = nunion T S.
Proof. seteq. Qed.

Theorem nunion_assoc S T U : nunion (nunion S T) U = nunion S (nunion T U).
Proof. seteq. Qed.

Theorem nunion_idem S : nunion S S = nset S.
Proof. seteq. Qed.

Lemma nunion_nset_l S T : nunion (nset S) T = nunion S T.
Proof. seteq. Qed.

Lemma nunion_nset_r S T : nunion S (nset T) = nunion S T.
Proof. seteq. Qed.

Lemma nset_nunion S T : nset (nunion S T) = nunion S T.
Proof. seteq. Qed.

(* boolean predicates *)
Lemma nsubset_spec A B : nsubset A B = true <-> (forall x, In x A -> In x B).
Proof.
  unfold nsubset. rewrite forallb_forall. split; intros H x Hx.
  - apply nat_mem_In, H, Hx.
  - apply nat_mem_In, H, Hx.
Qed.

Lemma nsubset_false_mono A B A' B' :
  nsubset A B = false -> (forall x, In x A -> In x A') -> (forall x, In x B' -> In x B) ->
  nsubset A' B' = false.
Proof.
  intros Hf HA HB. destruct (nsubset A' B') eqn:E; [|reflexivity].
  rewrite <- Hf. symmetry. apply nsubset_spec. intros x Hx.
  apply HB. apply (proj1 (nsubset_spec A' B') E). apply HA, Hx.
Qed.

Lemma nsubset_ext A A' B B' :
  (forall x, In x A <-> In x A') -> (forall x, In x B <-> In x B') -> nsubset A B = nsubset A' B'.
Proof.
  intros HA HB. apply eq_true_iff_eq. rewrite !nsubset_spec.
  split; intros H x Hx.
  - apply HB, H, HA, Hx.
  - apply HB, H, HA, Hx.
Qed.

Lemma nat_nodup_NoDup l : nat_nodup l = true <-> NoDup l.
Proof.
  induction l as [|a l IH]; simpl; [split; [constructor|reflexivity]|].
  rewrite andb_true_iff, negb_true_iff, IH. split.
  - intros [Hm Hn]. constructor; [|exact Hn]. intro Hin. apply nat_mem_In in Hin. congruence.
  - intros Hnd. inversion Hnd as [|a' l' Hni Hnd']; subst. split; [|exact Hnd'].
    destruct (nat_mem a l) eqn:E; [|reflexivity]. apply nat_mem_In in E. contradiction.
Qed.

Lemma valid_vars_spec n l : valid_vars n l = true <-> NoDup l /\ (forall x, In x l -> (x < n)%nat).
Proof.
  unfold valid_vars. rewrite andb_true_iff, nat_nodup_NoDup, forallb_forall.
  split; intros [Hn Hb]; split; try exact Hn; intros x Hx.
  - apply Nat.ltb_lt, Hb, Hx.
  - apply Nat.ltb_lt, Hb, Hx.
Qed.

Lemma valid_vars_nset n l : (forall x, In x l -> (x < n)%nat) -> valid_vars n (nset l) = true.
Proof.
  intros Hb. apply valid_vars_spec. split; [apply nset_NoDup|].
  intros x Hx. rewrite In_nset in Hx. apply Hb, Hx.
Qed.

Lemma disjoint_spec X Y :
  forallb (fun x => negb (nat_mem x Y)) X = true <-> (forall x, In x X -> ~ In x Y).
Proof.
  rewrite forallb_forall. split; intros H x Hx.
  - specialize (H x Hx). apply negb_true_iff in H. intro Hin. apply nat_mem_In in Hin. congruence.
  - apply negb_true_iff. destruct (nat_mem x Y) eqn:E; [|reflexivity].
    apply nat_mem_In in E. exfalso. exact (H x Hx E).
Qed.

Lemma NoDup_app_disj (X Y : list nat) :
  NoDup X -> NoDup Y -> (forall x, In x X -> ~ In x Y) -> NoDup (X ++ Y).
Proof.
  induction X as [|a X IH]; intros HX HY HD; simpl; [exact HY|].
  inversion HX as [|a' X' Hni HX']; subst. constructor.
  - rewrite in_app_iff. intros [Hin|Hin]; [contradiction|]. apply (HD a); [left; reflexivity| exact Hin].
  - apply IH; [exact HX'| exact HY|]. intros x Hx. apply HD. right. exact Hx.
Qed.

Lemma valid_vars_app n X Y :
  valid_vars n X = true -> valid_vars n Y = true ->
  forallb (fun x => negb (nat_mem x Y)) X = true -> valid_vars n (X ++ Y) = true.
Proof.
  intros VX VY D. apply valid_vars_spec in VX as [NX BX]. apply valid_vars_spec in VY as [NY BY].
  rewrite disjoint_spec in D. apply valid_vars_spec. split.
  - apply NoDup_app_disj; assumption.
  - intros x Hx. apply in_app_iff in Hx as [Hx|Hx]; [apply BX, Hx| apply BY, Hx].
Qed.

(* ------------------------------------------------------------------------------------------ *)
(* Part 2 — heval is linear *)

Lemma heval_nil h : heval h [] = 0.
Proof. reflexivity. Qed.

Lemma heval_cons h c S t : heval h ((c, S) :: t) = Q2R c * h S + heval h t.
Proof. reflexivity. Qed.

Lemma heval_app h a b : heval h (a ++ b) = heval h a + heval h b.
Proof. unfold heval. rewrite map_app, rsum_app. reflexivity. Qed.

Lemma heval_scale h c t : heval h (scale c t) = Q2R c * heval h t.
Proof.
  induction t as [|[q S] t IH].
  - unfold heval; simpl. ring.
  - change (scale c ((q, S) :: t)) with ((c * q, S)%Q :: scale c t).
    rewrite !heval_cons, IH, Q2R_mult. ring.
Qed.

Lemma Q2R_m1 : Q2R (-(1))%Q = -1.
Proof. rewrite Q2R_opp, RMicromega.Q2R_1. reflexivity. Qed.

(* inversion of the option combinators *)
Lemma oapp_inv {A} (a b : option (list A)) t :
  oapp a b = Some t -> exists ta tb, a = Some ta /\ b = Some tb /\ t = ta ++ tb.
Proof.
  destruct a as [ta|], b as [tb|]; simpl; intros H; try discriminate.
  injection H as <-. exists ta, tb. auto.
Qed.

Lemma oscale_inv c a t : oscale c a = Some t -> exists ta, a = Some ta /\ t = scale c ta.
Proof.
  destruct a as [ta|]; simpl; intros H; try discriminate.
  injection H as <-. exists ta. auto.
Qed.

Ltac oinv :=
  repeat match goal with
  | H : oapp _ _ = Some _ |- _ =>
      let ta := fresh "ta" in let tb := fresh "tb" in let Ha := fresh "Ha" in let Hb := fresh "Hb" in
      apply oapp_inv in H as (ta & tb & Ha & Hb & ->)
  | H : oscale _ _ = Some _ |- _ =>
      let ta := fresh "ta" in let Ha := fresh "Ha" in
      apply oscale_inv in H as (ta & Ha & ->)
  | H : osum (_ :: _) = Some _ |- _ => cbn [osum] in H
  | H : osum [] = Some _ |- _ => cbn [osum] in H
  | H : Some _ = Some ?t |- _ => is_var t; injection H as <-
  end.

(* ------------------------------------------------------------------------------------------ *)
(* Part 3 — identities for an arbitrary entropy function *)

Section Identities.
Variable h : list nat -> R.

Definition cmi_h (X Y Z : list nat) : R :=
  h (nunion X Z) + h (nunion Y Z) - h (nunion (nunion X Y) Z) - h (nset Z).

Theorem condH_eval n X Y t :
  cond_H n X Y = Some t ->
  heval h t = (if nsubset X Y then 0 else h (nunion X Y) - h (nset Y)).
Proof.
  unfold cond_H. intros Hc. destruct (nsubset X Y).
  - injection Hc as <-. reflexivity.
  - destruct (valid_vars n X && valid_vars n Y); [|discriminate]. injection Hc as <-.
    rewrite !heval_cons, heval_nil, Q2R_m1, RMicromega.Q2R_1. ring.
Qed.

Lemma cond_H_val n X Y :
  nsubset X Y = false -> valid_vars n X = true -> valid_vars n Y = true ->
  cond_H n X Y = Some [(1, nunion X Y); (-(1), nset Y)]%Q.
Proof. intros Hs VX VY. unfold cond_H. rewrite Hs, VX, VY. reflexivity. Qed.

Lemma sh_entropy_eval n X t : sh_entropy n X = Some t -> heval h t = h (nset X).
Proof.
  unfold sh_entropy. intros He. destruct (valid_vars n X); [|discriminate]. injection He as <-.
  rewrite heval_cons, heval_nil, RMicromega.Q2R_1. ring.
Qed.

Ltac heval_norm :=
  repeat (rewrite heval_app || rewrite heval_scale || rewrite heval_nil);
  repeat match goal with
  | H : cond_H _ _ _ = Some _ |- _ => apply condH_eval in H; rewrite H; clear H
  | H : sh_entropy _ _ = Some _ |- _ => apply sh_entropy_eval in H; rewrite H; clear H
  end.

Theorem mi_sym n X Y a b : sh_mi n X Y = Some a -> sh_mi n Y X = Some b -> heval h a = heval h b.
Proof.
  unfold sh_mi. intros Ha Hb. oinv. heval_norm.
  rewrite (nunion_comm Y X). ring.
Qed.

Theorem two_groups_coinformation n X Y Z t :
  valid_vars n X = true -> valid_vars n Y = true -> valid_vars n Z = true ->
  nsubset X Z = false -> nsubset Y Z = false -> nsubset (nunions [X;Y]) Z = false ->
  coinformation n [X;Y] Z = Some t -> heval h t = cmi_h X Y Z.
Proof.
  intros VX VY VZ SX SY SXY Hc.
  unfold coinformation in Hc. cbn [sublists map app length] in Hc. oinv. heval_norm.
  assert (E0 : nsubset (nunions []) Z = true) by reflexivity.
  assert (E1 : nsubset (nunions [X]) Z = false).
  { apply (nsubset_false_mono _ _ _ _ SX); set_in. }
  assert (E2 : nsubset (nunions [Y]) Z = false).
  { apply (nsubset_false_mono _ _ _ _ SY); set_in. }
  rewrite E0, E1, E2, SXY.
  replace (nunion (nunions [X]) Z) with (nunion X Z) by seteq.
  replace (nunion (nunions [Y]) Z) with (nunion Y Z) by seteq.
  replace (nunion (nunions [X;Y]) Z) with (nunion (nunion X Y) Z) by seteq.
  unfold cmi_h. cbn [sign Nat.even]. rewrite ?Q2R_m1, ?RMicromega.Q2R_1. ring.
Qed.

Theorem two_groups_total_correlation n X Y Z t :
  valid_vars n X = true -> valid_vars n Y = true -> valid_vars n Z = true ->
  nsubset X Z = false -> nsubset Y Z = false -> nsubset (nunions [X;Y]) Z = false ->
  total_correlation n [X;Y] Z = Some t -> heval h t = cmi_h X Y Z.
Proof.
  intros VX VY VZ SX SY SXY Hc.
  unfold total_correlation in Hc. cbn [map] in Hc. oinv. heval_norm.
  rewrite SX, SY, SXY.
  replace (nunion (nunions [X;Y]) Z) with (nunion (nunion X Y) Z) by seteq.
  unfold cmi_h. rewrite ?Q2R_m1. ring.
Qed.

(* side conditions: the two groups are disjoint and neither is contained in the union of the other
   with the conditioning set (so no shortcut fires in residual_entropy, nor in the joint term) *)
Theorem two_groups_dual_total_correlation n X Y Z t :
  forallb (fun x => negb (nat_mem x Y)) X = true ->
  nsubset X (nunion Y Z) = false -> nsubset Y (nunion X Z) = false ->
  dual_total_correlation n [X;Y] Z = Some t -> heval h t = cmi_h X Y Z.
Proof.
  intros D SX SY Hc. rewrite disjoint_spec in D.
  unfold dual_total_correlation, residual_entropy in Hc. cbn [map] in Hc. oinv. heval_norm.
  assert (E0 : nsubset (nunions [X;Y]) Z = false).
  { apply (nsubset_false_mono _ _ _ _ SX); set_in. }
  assert (E1 : nsubset X (nunion (others X [X;Y]) Z) = false).
  { apply (nsubset_false_mono _ _ _ _ SX); set_in. }
  assert (E2 : nsubset Y (nunion (others Y [X;Y]) Z) = false).
  { apply (nsubset_false_mono _ _ _ _ SY); set_in. }
  rewrite E0, E1, E2.
  replace (nunion (nunions [X;Y]) Z) with (nunion (nunion X Y) Z) by seteq.
  replace (nunion X (nunion (others X [X;Y]) Z)) with (nunion (nunion X Y) Z) by seteq.
  replace (nunion Y (nunion (others Y [X;Y]) Z)) with (nunion (nunion X Y) Z) by seteq.
  replace (nset (nunion (others X [X;Y]) Z)) with (nunion Y Z).
  2:{ unfold nunion, others, nunions. apply nset_canonical. intro x. pose proof (D x) as Dx.
      set_norm. simpl In. tauto. }
  replace (nset (nunion (others Y [X;Y]) Z)) with (nunion X Z).
  2:{ unfold nunion, others, nunions. apply nset_canonical. intro x. pose proof (D x) as Dx.
      set_norm. simpl In. tauto. }
  unfold cmi_h. rewrite ?Q2R_m1. ring.
Qed.

(* CAEKL: shape of the candidate list for two distinct groups *)
Lemma two_groups_caekl_shape n X Y Z :
  X <> Y ->
  caekl_candidates n [X;Y] Z =
  [oscale (1 / inject_Z (Z.of_nat 1))%Q
     (oapp (osum [mv_entropy n [X] Z; mv_entropy n [Y] Z]) (oscale (-(1))%Q (mv_entropy n [X;Y] Z)))].
Proof.
  intros Hne. unfold caekl_candidates.
  assert (Hg : gdedup [X;Y] = [X;Y]).
  { cbn [gdedup omem existsb]. destruct (oeqb_spec X Y) as [He|He]; [contradiction| reflexivity]. }
  rewrite Hg. reflexivity.
Qed.

Theorem two_groups_caekl_eval n X Y Z t :
  X <> Y -> nsubset X Z = false -> nsubset Y Z = false ->
  caekl_candidates n [X;Y] Z = [Some t] -> heval h t = cmi_h X Y Z.
Proof.
  intros Hne SX SY Hc. rewrite (two_groups_caekl_shape n X Y Z Hne) in Hc.
  injection Hc as Hc. unfold mv_entropy in Hc. cbn [concat] in Hc. rewrite !app_nil_r in Hc.
  oinv. heval_norm.
  assert (E0 : nsubset (X ++ Y) Z = false).
  { apply (nsubset_false_mono _ _ _ _ SX); set_in. }
  rewrite SX, SY, E0.
  replace (nunion (X ++ Y) Z) with (nunion (nunion X Y) Z) by seteq.
  unfold cmi_h. change (Z.of_nat 1) with 1%Z in *. change (1 / inject_Z 1)%Q with 1%Q.
  rewrite RMicromega.Q2R_1, ?Q2R_m1. ring.
Qed.

Theorem two_groups_caekl n X Y Z :
  X <> Y -> forallb (fun x => negb (nat_mem x Y)) X = true ->
  valid_vars n X = true -> valid_vars n Y = true -> valid_vars n Z = true ->
  nsubset X Z = false -> nsubset Y Z = false ->
  exists t, caekl_candidates n [X;Y] Z = [Some t] /\ heval h t = cmi_h X Y Z.
Proof.
  intros Hne D VX VY VZ SX SY.
  assert (E0 : nsubset (X ++ Y) Z = false).
  { apply (nsubset_false_mono _ _ _ _ SX); set_in. }
  assert (Hex : exists t, caekl_candidates n [X;Y] Z = [Some t]).
  { rewrite (two_groups_caekl_shape n X Y Z Hne). unfold mv_entropy. cbn [concat].
    rewrite !app_nil_r.
    rewrite (cond_H_val n X Z SX VX VZ), (cond_H_val n Y Z SY VY VZ),
            (cond_H_val n (X ++ Y) Z E0 (valid_vars_app n X Y VX VY D) VZ).
    cbn [osum oapp oscale option_map]. eexists. reflexivity. }
  destruct Hex as [t Ht]. exists t. split; [exact Ht|].
  exact (two_groups_caekl_eval n X Y Z t Hne SX SY Ht).
Qed.

Theorem o_information_def n gs cr t b o :
  total_correlation n gs cr = Some t -> dual_total_correlation n gs cr = Some b ->
  o_information n gs cr = Some o -> heval h o = heval h t - heval h b.
Proof.
  intros Ht Hb Ho. unfold o_information in Ho. rewrite Ht, Hb in Ho. cbn [oapp oscale option_map] in Ho.
  injection Ho as <-. rewrite heval_app, heval_scale, Q2R_m1. ring.
Qed.

Theorem interaction_sign n gs cr c i :
  coinformation n gs cr = Some c -> interaction_information n gs cr = Some i ->
  heval h i = Q2R (sign (length gs)) * heval h c.
Proof.
  intros Hc Hi. unfold interaction_information in Hi. rewrite Hc in Hi. cbn [oscale option_map] in Hi.
  injection Hi as <-. apply heval_scale.
Qed.

End Identities.

Print Assumptions nset_canonical.
Print Assumptions two_groups_total_correlation.
