(* Core/FDist.v — finite tables outcome -> Q with Python-dict semantics, and pushforwards. *)
From Verif Require Export Prelude.
Open Scope Q_scope.

Definition pd := list (outcome * Q).

Definition prob_of (d : pd) (o : outcome) : Q :=
  qsum (map snd (filter (fun x => oeqb (fst x) o) d)).
Definition mass (d : pd) : Q := qsum (map snd d).
Definition keys (d : pd) : list outcome := map fst d.

(* accumulate v on key k, keeping first-insertion order (dict / defaultdict semantics) *)
Fixpoint add_to (k : outcome) (v : Q) (acc : pd) : pd :=
  match acc with
  | [] => [(k, v)]
  | (k', v') :: t => if oeqb k' k then (k', v' + v) :: t else (k', v') :: add_to k v t
  end.

Definition pushforward (f : outcome -> outcome) (d : pd) : pd :=
  fold_left (fun acc x => add_to (f (fst x)) (snd x) acc) d [].

(* the sum over the fibre of o under f *)
Definition fibre_sum (f : outcome -> outcome) (d : pd) (o : outcome) : Q :=
  qsum (map snd (filter (fun x => oeqb (f (fst x)) o) d)).

(* first entry with key o (dict lookup on a duplicate-free table) *)
Fixpoint find_key (o : outcome) (d : pd) : option Q :=
  match d with
  | [] => None
  | (k, v) :: t => if oeqb k o then Some v else find_key o t
  end.

Definition get0 (o : outcome) (d : pd) : Q := match find_key o d with Some v => v | None => 0 end.

(* ---------------------------------------------------------------------------------------- *)

Lemma prob_add_to k v acc o :
  prob_of (add_to k v acc) o == prob_of acc o + (if oeqb k o then v else 0).
Proof.
  induction acc as [|[k' v'] t IH]; unfold prob_of in *; simpl.
  - destruct (oeqb k o); simpl; lra.
  - destruct (oeqb_spec k' k) as [->|Hne]; simpl.
    + destruct (oeqb k o); simpl; lra.
    + destruct (oeqb k' o); simpl; rewrite IH; lra.
Qed.

Lemma keys_add_to k v acc :
  keys (add_to k v acc) = if omem k (keys acc) then keys acc else keys acc ++ [k].
Proof.
  unfold keys, omem. induction acc as [|[k' v'] t IH]; simpl; [reflexivity|].
  rewrite (oeqb_sym k k').
  destruct (oeqb_spec k' k) as [->|Hne]; simpl; [reflexivity|].
  rewrite IH. destruct (existsb _ (map fst t)); reflexivity.
Qed.

Lemma pushforward_prob_gen (f : outcome -> outcome) (d : pd) acc o :
  prob_of (fold_left (fun acc x => add_to (f (fst x)) (snd x) acc) d acc) o
  == prob_of acc o + fibre_sum f d o.
Proof.
  unfold fibre_sum. revert acc; induction d as [|[k v] t IH]; intros acc; simpl.
  - lra.
  - rewrite IH, prob_add_to. destruct (oeqb (f k) o); simpl; lra.
Qed.

Theorem pushforward_prob (f : outcome -> outcome) (d : pd) o :
  prob_of (pushforward f d) o == fibre_sum f d o.
Proof. unfold pushforward. rewrite pushforward_prob_gen. unfold prob_of; simpl; lra. Qed.

Lemma mass_add_to k v acc : mass (add_to k v acc) == mass acc + v.
Proof.
  induction acc as [|[k' v'] t IH]; unfold mass in *; simpl; [lra|].
  destruct (oeqb k' k); simpl; [lra| rewrite IH; lra].
Qed.

Theorem pushforward_mass (f : outcome -> outcome) (d : pd) : mass (pushforward f d) == mass d.
Proof.
  unfold pushforward.
  assert (H: forall acc, mass (fold_left (fun acc x => add_to (f (fst x)) (snd x) acc) d acc) == mass acc + mass d).
  { induction d as [|[k v] t IH]; intros acc; simpl; [unfold mass; simpl; lra|].
    rewrite IH, mass_add_to. unfold mass; simpl; lra. }
  rewrite H. unfold mass; simpl; lra.
Qed.

Lemma nodup_snoc (l : list outcome) k : NoDup l -> ~ In k l -> NoDup (l ++ [k]).
Proof.
  induction l as [|a l IH]; simpl; intros Hn Hk.
  - constructor; [intros []|constructor].
  - inversion Hn; subst. constructor.
    + rewrite in_app_iff; simpl. intros [?|[?|[]]]; [contradiction|subst; apply Hk; left; reflexivity].
    + apply IH; [assumption| intro; apply Hk; right; assumption].
Qed.

Lemma nodup_add_to k v acc : NoDup (keys acc) -> NoDup (keys (add_to k v acc)).
Proof.
  intros Hn. rewrite keys_add_to.
  destruct (omem k (keys acc)) eqn:E; [assumption|].
  apply nodup_snoc; [assumption|].
  intro Hin. apply omem_In in Hin. congruence.
Qed.

Theorem pushforward_nodup (f : outcome -> outcome) (d : pd) : NoDup (keys (pushforward f d)).
Proof.
  unfold pushforward.
  assert (H: forall acc, NoDup (keys acc) ->
             NoDup (keys (fold_left (fun acc x => add_to (f (fst x)) (snd x) acc) d acc))).
  { induction d as [|x t IH]; intros acc Hacc; simpl; [assumption|]. apply IH, nodup_add_to, Hacc. }
  apply H; constructor.
Qed.

Lemma In_keys_add_to k v acc o : In o (keys (add_to k v acc)) <-> In o (keys acc) \/ o = k.
Proof.
  rewrite keys_add_to. destruct (omem k (keys acc)) eqn:E.
  - apply omem_In in E. split.
    + auto.
    + intros [H|H]; [assumption| subst; assumption].
  - rewrite in_app_iff. simpl. split.
    + intros [H|[H|[]]]; auto.
    + intros [H|H]; auto.
Qed.

Theorem pushforward_keys (f : outcome -> outcome) (d : pd) o :
  In o (keys (pushforward f d)) <-> exists k, In k (keys d) /\ o = f k.
Proof.
  unfold pushforward.
  assert (H: forall acc, In o (keys (fold_left (fun acc x => add_to (f (fst x)) (snd x) acc) d acc))
             <-> In o (keys acc) \/ exists k, In k (keys d) /\ o = f k).
  { induction d as [|[k v] t IH]; intros acc; simpl.
    - split.
      + auto.
      + intros [H|[k [[] _]]]. exact H.
    - rewrite IH, In_keys_add_to. split.
      + intros [[H|H]|[k' [Hk' H]]].
        * left; exact H.
        * right; exists k; auto.
        * right; exists k'; auto.
      + intros [H|[k' [[E|Hk'] H]]].
        * left; left; exact H.
        * subst. left; right; reflexivity.
        * right; exists k'; auto. }
  rewrite H. simpl. split.
  - intros [[]|H']; exact H'.
  - auto.
Qed.

(* on a duplicate-free table, the dict lookup is prob_of *)
Lemma prob_of_notin d o : ~ In o (keys d) -> prob_of d o == 0.
Proof.
  unfold prob_of. induction d as [|[k v] t IH]; simpl; intros Hn; [lra|].
  destruct (oeqb_spec k o) as [->|Hne]; [exfalso; apply Hn; left; reflexivity|].
  apply IH. intro; apply Hn; right; assumption.
Qed.

Lemma find_key_None o d : find_key o d = None <-> ~ In o (keys d).
Proof.
  induction d as [|[k v] t IH]; simpl; [tauto|].
  destruct (oeqb_spec k o) as [->|Hne].
  - split; [discriminate| intros H; exfalso; apply H; left; reflexivity].
  - rewrite IH. split; [intros H [E|E]; [congruence| contradiction]| intros H E; apply H; right; exact E].
Qed.

Lemma get0_prob_of d o : NoDup (keys d) -> get0 o d == prob_of d o.
Proof.
  unfold get0, prob_of. induction d as [|[k v] t IH]; simpl; intros Hn; [lra|].
  inversion Hn as [|? ? Hnotin Hn']; subst.
  destruct (oeqb_spec k o) as [->|Hne]; simpl.
  - fold (prob_of t o). rewrite (prob_of_notin t o Hnotin). lra.
  - apply IH, Hn'.
Qed.

(* composition: pushing forward in stages = at once *)
Lemma fibre_sum_ext f g d o : (forall k, In k (keys d) -> f k = g k) -> fibre_sum f d o == fibre_sum g d o.
Proof.
  unfold fibre_sum. induction d as [|[k v] t IH]; simpl; intros H; [lra|].
  rewrite (H k) by (left; reflexivity).
  destruct (oeqb (g k) o); simpl; rewrite IH by (intros k' Hk'; apply H; right; exact Hk'); lra.
Qed.

Lemma fibre_sum_add_to g k v acc o :
  fibre_sum g (add_to k v acc) o == fibre_sum g acc o + (if oeqb (g k) o then v else 0).
Proof.
  unfold fibre_sum. induction acc as [|[k' v'] t IH]; simpl.
  - destruct (oeqb (g k) o); simpl; lra.
  - destruct (oeqb_spec k' k) as [->|Hne]; simpl.
    + destruct (oeqb (g k) o); simpl; lra.
    + destruct (oeqb (g k') o); simpl; rewrite IH; lra.
Qed.

Theorem pushforward_compose (f g : outcome -> outcome) (d : pd) o :
  prob_of (pushforward g (pushforward f d)) o == prob_of (pushforward (fun k => g (f k)) d) o.
Proof.
  rewrite !pushforward_prob. unfold pushforward.
  assert (H: forall acc,
     fibre_sum g (fold_left (fun acc x => add_to (f (fst x)) (snd x) acc) d acc) o
     == fibre_sum g acc o + fibre_sum (fun k => g (f k)) d o).
  { induction d as [|[k v] t IH]; intros acc; simpl.
    - unfold fibre_sum; simpl; lra.
    - rewrite IH, fibre_sum_add_to. unfold fibre_sum at 4. simpl.
      destruct (oeqb (g (f k)) o); simpl; unfold fibre_sum; lra. }
  rewrite H. unfold fibre_sum; simpl; lra.
Qed.

Lemma fibre_sum_nonneg f d o : Forall (fun x => 0 <= snd x) d -> 0 <= fibre_sum f d o.
Proof.
  unfold fibre_sum. induction 1 as [|[k v] t Hx Ht IH]; simpl; [lra|].
  destruct (oeqb (f k) o); simpl in *; lra.
Qed.
