(* Core/Prelude.v — outcomes, boolean equalities, rational sums, lexicographic order.
   Stdlib only.  Shared by every model file. *)
From Coq Require Export QArith List Bool Arith Lia Lqa.
Export ListNotations.
Open Scope Q_scope.

(* An outcome is the list of its symbols; a symbol is encoded by the driver as its rank in the
   Python-sorted list of the symbols of its case (DESIGN 2.1), so Python's order on outcomes is the
   lexicographic order below. *)
Definition outcome := list nat.

Fixpoint oeqb (a b : outcome) : bool :=
  match a, b with
  | [], [] => true
  | x :: a', y :: b' => Nat.eqb x y && oeqb a' b'
  | _, _ => false
  end.

Lemma oeqb_eq a b : oeqb a b = true <-> a = b.
Proof.
  revert b; induction a as [|x a IH]; intros [|y b]; simpl; split; intros H; try congruence; try discriminate.
  - apply andb_true_iff in H as [H1 H2]. apply Nat.eqb_eq in H1. apply IH in H2. congruence.
  - inversion H; subst. rewrite Nat.eqb_refl. simpl. apply IH. reflexivity.
Qed.

Lemma oeqb_spec a b : reflect (a = b) (oeqb a b).
Proof. destruct (oeqb a b) eqn:E; constructor; [apply oeqb_eq, E| intro H; apply oeqb_eq in H; congruence]. Qed.

Lemma oeqb_refl a : oeqb a a = true.
Proof. apply oeqb_eq; reflexivity. Qed.

Lemma oeqb_sym a b : oeqb a b = oeqb b a.
Proof. destruct (oeqb_spec a b), (oeqb_spec b a); congruence. Qed.

Definition omem (o : outcome) (l : list outcome) : bool := existsb (oeqb o) l.

Lemma omem_In o l : omem o l = true <-> In o l.
Proof.
  unfold omem. rewrite existsb_exists. split.
  - intros [x [Hin Hx]]. apply oeqb_eq in Hx. subst. exact Hin.
  - intros H. exists o. split; [exact H| apply oeqb_refl].
Qed.

(* lexicographic comparison of outcomes (Python's tuple / str order on rank-encoded symbols) *)
Fixpoint olt (a b : outcome) : bool :=
  match a, b with
  | [], [] => false
  | [], _ :: _ => true
  | _ :: _, [] => false
  | x :: a', y :: b' => if Nat.ltb x y then true else if Nat.eqb x y then olt a' b' else false
  end.

Definition ole (a b : outcome) : bool := negb (olt b a).

Fixpoint oinsert (o : outcome) (l : list outcome) : list outcome :=
  match l with
  | [] => [o]
  | x :: t => if ole o x then o :: l else x :: oinsert o t
  end.

Definition osort (l : list outcome) : list outcome := fold_right oinsert [] l.

(* first-occurrence de-duplication (dict / OrderedDict key order) *)
Fixpoint odedup_acc (seen : list outcome) (l : list outcome) : list outcome :=
  match l with
  | [] => []
  | x :: t => if omem x seen then odedup_acc seen t else x :: odedup_acc (x :: seen) t
  end.
Definition odedup := odedup_acc [].

(* rational sums *)
Fixpoint qsum (l : list Q) : Q := match l with [] => 0 | x :: t => x + qsum t end.

Lemma qsum_app l1 l2 : qsum (l1 ++ l2) == qsum l1 + qsum l2.
Proof. induction l1 as [|x l IH]; simpl; [lra| rewrite IH; lra]. Qed.

Lemma qsum_nonneg l : Forall (fun x => 0 <= x) l -> 0 <= qsum l.
Proof. induction 1; simpl; lra. Qed.

Definition Qabs_le (x t : Q) : bool := Qle_bool x t && Qle_bool (- t) x.

Lemma Qabs_le_spec x t : Qabs_le x t = true <-> (- t <= x /\ x <= t).
Proof.
  unfold Qabs_le. rewrite andb_true_iff, !Qle_bool_iff. tauto.
Qed.

(* |a - b| <= t *)
Definition qclose (t a b : Q) : bool := Qabs_le (a - b) t.

(* projection of an outcome on a list of positions (nth with a default that the WF hypotheses of
   the theorems exclude: indices are always < length) *)
Definition proj (idx : list nat) (o : outcome) : outcome := map (fun i => nth i o 0%nat) idx.

Lemma proj_proj I J o :
  Forall (fun j => (j < length I)%nat) J ->
  proj J (proj I o) = proj (map (fun j => nth j I 0%nat) J) o.
Proof.
  intros H. unfold proj. rewrite map_map. apply map_ext_in. intros j Hj.
  rewrite Forall_forall in H. specialize (H j Hj).
  rewrite (nth_indep _ 0%nat (nth 0 o 0%nat)) by (rewrite map_length; exact H).
  exact (map_nth (fun i => nth i o 0%nat) I 0%nat j).
Qed.

(* tolerances used by dit *)
Definition null_tol : Q := 1 # 100000000.      (* np.isclose(p, 0): atol = 1e-8 *)

(* positions 0..n-1 *)
Definition range (n : nat) : list nat := seq 0 n.

Fixpoint nat_mem (x : nat) (l : list nat) : bool :=
  match l with [] => false | y :: t => Nat.eqb x y || nat_mem x t end.

Lemma nat_mem_In x l : nat_mem x l = true <-> In x l.
Proof.
  induction l as [|y t IH]; simpl; [split; [discriminate| tauto]|].
  rewrite orb_true_iff, Nat.eqb_eq, IH. split; intros [H|H]; auto.
Qed.

Fixpoint nat_nodup (l : list nat) : bool :=
  match l with [] => true | x :: t => negb (nat_mem x t) && nat_nodup t end.

Fixpoint ninsert (x : nat) (l : list nat) : list nat :=
  match l with [] => [x] | y :: t => if Nat.leb x y then x :: l else y :: ninsert x t end.
Definition nsort (l : list nat) : list nat := fold_right ninsert [] l.
