(* Core/Dist.v — sample spaces and distribution records (DESIGN 2.2): the state dit keeps in
   `_sample_space`, `outcomes`/`pmf`, `_meta['is_sparse']`, `ops`, `_rvs`.
   Values are stored as exact linear rationals whatever the base. *)
From Verif Require Export FDist.
Open Scope Q_scope.

Inductive sspace := Cart (alphs : list (list nat)) | Expl (os : list outcome).

(* itertools.product order: first coordinate slowest *)
Fixpoint cart (alphs : list (list nat)) : list outcome :=
  match alphs with
  | [] => [[]]
  | a :: r => flat_map (fun x => map (cons x) (cart r)) a
  end.

Definition ss_enum (ss : sspace) : list outcome :=
  match ss with Cart a => cart a | Expl os => os end.

Fixpoint mem_cart (o : outcome) (alphs : list (list nat)) : bool :=
  match o, alphs with
  | [], [] => true
  | x :: o', a :: r => nat_mem x a && mem_cart o' r
  | _, _ => false
  end.

Definition ss_mem (ss : sspace) (o : outcome) : bool :=
  match ss with Cart a => mem_cart o a | Expl os => omem o os end.

Definition ss_len (ss : sspace) : nat :=
  match ss with Cart a => length a | Expl os => match os with [] => 0%nat | o :: _ => length o end end.

(* per-variable alphabets: construct_alphabets, sorted (dit sorts them when sort=True) *)
Definition column (i : nat) (os : list outcome) : list nat := map (fun o => nth i o 0%nat) os.
Fixpoint ndedup (l : list nat) : list nat :=
  match l with [] => [] | x :: t => if nat_mem x t then ndedup t else x :: ndedup t end.
Definition alphabets_of (n : nat) (os : list outcome) : list (list nat) :=
  map (fun i => nsort (ndedup (column i os))) (range n).

Definition ss_alphabets (ss : sspace) : list (list nat) :=
  match ss with Cart a => a | Expl os => alphabets_of (ss_len ss) os end.

(* SampleSpace.coalesce([idx], extract=True) followed by the `.sort()` Distribution.__init__
   applies to a SampleSpace instance *)
Definition ss_coalesce (idx : list nat) (ss : sspace) : sspace :=
  match ss with
  | Cart a => Cart (map (fun i => nth i a []) idx)
  | Expl os => Expl (osort (odedup (map (proj idx) os)))
  end.

Inductive base := Linear | Log2 | LogE | LogQ (b : Q).

Definition base_eqb (a b : base) : bool :=
  match a, b with
  | Linear, Linear | Log2, Log2 | LogE, LogE => true
  | LogQ x, LogQ y => Qeq_bool x y
  | _, _ => false
  end.

Record dist := mkDist {
  d_ss : sspace;
  d_tbl : pd;                      (* stored outcomes with their (linear) values, in stored order *)
  d_sparse : bool;
  d_base : base;
  d_names : option (list nat)      (* variable names as ids, position = variable index *)
}.

(* np.isclose(p, ops.zero): |p| <= 1e-8 for linear values; for log values only the exact null -inf,
   i.e. linear 0 *)
Definition is_null (b : base) (p : Q) : bool :=
  match b with Linear => Qabs_le p null_tol | _ => Qeq_bool p 0 end.

(* helpers.reorder for distinct outcomes inside the sample space *)
Definition reorder (ss : sspace) (t : pd) : pd :=
  flat_map (fun o => match find_key o t with Some v => [(o, v)] | None => [] end) (ss_enum ss).

Definition dense_of (ss : sspace) (t : pd) : pd := map (fun o => (o, get0 o t)) (ss_enum ss).
Definition trim (b : base) (t : pd) : pd := filter (fun x => negb (is_null b (snd x))) t.

(* Distribution(outcomes, pmf, sample_space=ss, sparse=sparse, trim=True, sort=True) after _init *)
Definition build (ss : sspace) (t : pd) (sparse : bool) (b : base) : pd :=
  if sparse then trim b (reorder ss t) else dense_of ss t.

(* d[o]: None stands for InvalidOutcome *)
Definition lookup (d : dist) (o : outcome) : option Q :=
  if ss_mem (d_ss d) o then Some (get0 o (d_tbl d)) else None.

Definition d_outcomes (d : dist) : list outcome := keys (d_tbl d).
Definition d_nvars (d : dist) : nat := ss_len (d_ss d).

(* well-formedness: what every dit distribution built with sort=True satisfies *)
Definition all_in_ss (ss : sspace) (t : pd) : bool := forallb (fun x => ss_mem ss (fst x)) t.

Record WF (d : dist) : Prop := {
  wf_nodup : NoDup (keys (d_tbl d));
  wf_in : forall o, In o (keys (d_tbl d)) -> ss_mem (d_ss d) o = true;
  wf_order : keys (d_tbl d) = filter (fun o => omem o (keys (d_tbl d))) (ss_enum (d_ss d));
  wf_dense : d_sparse d = false -> keys (d_tbl d) = ss_enum (d_ss d)
}.
