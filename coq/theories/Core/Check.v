(* Core/Check.v — tactics for real-valued correspondence goals.
   A goal has the form  Rabs (den (data ...) - Q2R obs) <= Q2R tol : the data part is evaluated by
   vm_compute, the denotation is unfolded, and Coq-Interval (a reflexive, kernel-checked interval
   evaluation) closes the goal.  Verdicts are printed one per case: OK (agreement proved),
   FAIL (disagreement proved: the negation beyond tol/2... see `decide_close`), or INCONCLUSIVE. *)
From Verif Require Export Info.
From Interval Require Export Tactic.
Open Scope R_scope.

Ltac ev :=
  cbv -[Rplus Rminus Rmult Rdiv Ropp Rinv ln exp sqrt Rpower IZR Rabs Rle Rlt Rge Rgt Rmin Rmax PI cos sin].

(* evaluate every `data`-level subterm first: the caller wraps data in `stage` *)
Definition stage {A} (x : A) : A := x.
Ltac stage_all :=
  repeat match goal with
         | |- context [@stage ?A ?t] =>
             let v := eval vm_compute in t in change (@stage A t) with v
         end.

Ltac close_goal := stage_all; ev; first [ interval with (i_prec 80) | interval with (i_prec 160) ].

(* `close n G far` : G is the closeness statement, far the statement that the two values are
   clearly apart (|x - obs| >= 2 tol), both as Props *)
Ltac verdict n G FAR :=
  tryif (assert G by close_goal) then idtac "CASE" n "OK"
  else tryif (assert FAR by close_goal) then idtac "CASE" n "FAIL"
  else idtac "CASE" n "INCONCLUSIVE".

(* goals about optional reflected data: None = dit must have raised ditException *)
Definition okgoal (m : option rdata) (raised : bool) (obs tol : Q) : Prop :=
  match m with
  | None => raised = true
  | Some r => raised = false /\ Rabs (rden r - Q2R obs) <= Q2R tol
  end.
Definition fargoal (m : option rdata) (raised : bool) (obs tol : Q) : Prop :=
  match m with
  | None => raised = false
  | Some r => raised = true \/ Rabs (rden r - Q2R obs) >= 2 * Q2R tol
  end.

Ltac itv := first [ interval with (i_prec 80) | interval with (i_prec 160) ].
Ltac close_ok := stage_all; ev; first [ reflexivity | exact I | split; [reflexivity | itv] | itv ].
Ltac close_far := stage_all; ev; first [ reflexivity | exact I | left; reflexivity | right; itv | itv ].

Ltac decide_case n G FAR :=
  tryif assert_succeeds (assert G by close_ok) then idtac "CASE" n "OK"
  else tryif assert_succeeds (assert FAR by close_far) then idtac "CASE" n "FAIL"
  else idtac "CASE" n "INCONCLUSIVE".

(* one-sided goals, for minima / maxima decided with an untrusted hint:
   |min_i v_i - obs| <= tol  follows from  (forall i, v_i >= obs - tol) and (exists i, v_i <= obs + tol) *)
Definition gegoal (m : option rdata) (obs tol : Q) : Prop :=
  match m with None => False | Some r => rden r >= Q2R obs - Q2R tol end.
Definition ltgoal (m : option rdata) (obs tol : Q) : Prop :=
  match m with None => True | Some r => rden r <= Q2R obs - 2 * Q2R tol end.
Definition legoal (m : option rdata) (obs tol : Q) : Prop :=
  match m with None => False | Some r => rden r <= Q2R obs + Q2R tol end.
Definition gtgoal (m : option rdata) (obs tol : Q) : Prop :=
  match m with None => True | Some r => rden r >= Q2R obs + 2 * Q2R tol end.
