(* Core/Info.v — real-valued denotations of information quantities over rational data.
   A real-valued model = a Q-level function computing *data* (lists of rationals, evaluated by
   vm_compute) + one of the small denotations below (unfolded by cbv and bounded by `interval`). *)
From Coq Require Export Reals QArith Qreals List.
From Verif Require Export Prelude.
From Coq Require Export Lra.
Import ListNotations.
Open Scope R_scope.

Definition log2 (x : R) : R := ln x / ln 2.
Definition logb (b x : R) : R := ln x / ln b.

Fixpoint rsum (l : list R) : R := match l with [] => 0 | x :: t => x + rsum t end.

(* p log2 p with 0 log 0 = 0 (np.nansum drops the nan of 0 * -inf) *)
Definition plogp (q : Q) : R := if Qle_bool q 0 then 0 else Q2R q * log2 (Q2R q).
Definition entropy_list (l : list Q) : R := - rsum (map plogp l).

(* linear combination of entropies: sum_i c_i H(l_i) *)
Definition lincomb (t : list (Q * list Q)) : R :=
  rsum (map (fun x => Q2R (fst x) * entropy_list (snd x)) t).

(* Renyi entropy of order a (a > 0, a <> 1), Tsallis entropy of order a (a <> 1), in dit's forms *)
Definition powsum (a : Q) (l : list Q) : R :=
  rsum (map (fun q => if Qle_bool q 0 then 0 else Rpower (Q2R q) (Q2R a)) l).
Definition renyi_list (a : Q) (l : list Q) : R := log2 (powsum a l) / (1 - Q2R a).
Definition tsallis_list (a : Q) (l : list Q) : R := (powsum a l - 1) / (1 - Q2R a).
Definition support_size (l : list Q) : nat := length (filter (fun q => negb (Qle_bool q 0)) l).
Definition qmax (l : list Q) : Q := fold_right (fun q m => if Qle_bool m q then q else m) 0%Q l.

(* extropy: - sum (1-p) log2 (1-p) *)
Definition extropy_list (l : list Q) : R := - rsum (map (fun q => plogp (1 - q)%Q) l).

(* cross entropy / Kullback-Leibler divergence of label-aligned lists, in bits; the caller has
   checked that q_i > 0 wherever p_i > 0 (otherwise the value is +infinity) *)
Definition xlogy (p q : Q) : R := if Qle_bool p 0 then 0 else Q2R p * log2 (Q2R q).
Fixpoint xent_list (ps qs : list Q) : R :=
  match ps, qs with
  | p :: ps', q :: qs' => - xlogy p q + xent_list ps' qs'
  | _, _ => 0
  end.
Definition kl_list (ps qs : list Q) : R := xent_list ps qs - entropy_list ps.

(* logarithm bases as tags (no reals inside reflected data) *)
Inductive btag := BT2 | BTE | BTQ (b : Q).
Definition lnb (b : btag) : R := match b with BT2 => ln 2 | BTE => 1 | BTQ q => ln (Q2R q) end.
Definition bpow (b : btag) (x : R) : R := exp (x * lnb b).

(* reflected real-valued results: Q-level data + which denotation applies *)
Inductive rdata :=
| RLin (t : list (Q * list Q))                  (* sum c_i H(l_i), bits *)
| RNats (t : list (Q * list Q))                 (* ln 2 * sum c_i H(l_i): nats *)
| RRenyi (a : Q) (l : list Q)
| RHartley (l : list Q)                         (* log2 of the support size *)
| RMinEnt (l : list Q)                          (* -log2 max p *)
| RTsallis (a : Q) (l : list Q)
| RExtropy (l : list Q)
| RPow (b : Q) (t : list (Q * list Q))          (* b ^ (sum c_i H(l_i)) *)
| RXent (ps qs : list Q)
| RKL (ps qs : list Q)
| RConst (q : Q)
(* log-base rendering (C07): units and exponentials in a base *)
| RInBase (b : btag) (r : rdata)                (* r is in bits; value in base-b units: r * ln 2 / ln b *)
| RExpB (b : btag) (x : Q)                      (* b ^ x *)
| RLogB (b : btag) (r : rdata)                  (* log_b r *)
| RAdd (r1 r2 : rdata)
| RMul (r1 r2 : rdata)
| RNeg (r : rdata)
| RInv (r : rdata)
| RSqrt (r : rdata)
| RPowQ (p a : Q)                               (* p ^ a for p > 0 *)
| RLog2 (r : rdata).

Fixpoint rden (r : rdata) : R :=
  match r with
  | RLin t => lincomb t
  | RNats t => ln 2 * lincomb t
  | RRenyi a l => renyi_list a l
  | RHartley l => log2 (IZR (Z.of_nat (support_size l)))
  | RMinEnt l => - log2 (Q2R (qmax l))
  | RTsallis a l => tsallis_list a l
  | RExtropy l => extropy_list l
  | RPow b t => Rpower (Q2R b) (lincomb t)
  | RXent ps qs => xent_list ps qs
  | RKL ps qs => kl_list ps qs
  | RConst q => Q2R q
  | RInBase b r' => rden r' * (ln 2 / lnb b)
  | RExpB b x => bpow b (Q2R x)
  | RLogB b r' => ln (rden r') / lnb b
  | RAdd r1 r2 => rden r1 + rden r2
  | RMul r1 r2 => rden r1 * rden r2
  | RNeg r' => - rden r'
  | RInv r' => / rden r'
  | RSqrt r' => sqrt (rden r')
  | RPowQ p a => Rpower (Q2R p) (Q2R a)
  | RLog2 r' => log2 (rden r')
  end.

(* ------------------------------------------------------------------------------------------ *)
(* bridges *)

Lemma Q2R_qsum l : Q2R (qsum l) = rsum (map Q2R l).
Proof.
  induction l as [|x t IH]; simpl; [unfold Q2R; simpl; ring|].
  rewrite Q2R_plus, IH. reflexivity.
Qed.

Lemma rsum_app l1 l2 : rsum (l1 ++ l2) = rsum l1 + rsum l2.
Proof. induction l1 as [|x t IH]; simpl; [lra| rewrite IH; lra]. Qed.

Lemma ln2_pos : 0 < ln 2.
Proof. rewrite <- ln_1. apply ln_increasing; lra. Qed.
