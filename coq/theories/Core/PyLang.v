(* Core/PyLang.v — a small deep-embedded imperative language (the fragment of Python in which dit's
   pure-Python numeric loops are written) and its total big-step interpreter.

   tools/py2coq.py translates selected functions of /repo's *current* source, statement by statement,
   into terms of type [func] (theories/Gen/*.v, regenerated on every run).  The refinement theorems
   (Proofs/*_Refine.v) are stated about those generated terms, so they are re-checked against what the
   code says now: an edit of the source changes the term and the proof has to go through again.

   Numbers: Python ints are [VInt] (unbounded Z); floats are [VNum] over an abstract carrier T with its
   operations (instantiated at Q for the theorems' exact reading and at binary64 [PrimFloat] for the
   executable mirror).  A mixed int/float operation coerces the int with [ofZ], as Python does.
   [np.empty(n, dtype=int)] allocates an array of [VNone]: an entry that is never written stays visibly
   undefined.  Every loop iterates over a list computed before the loop starts (range / enumerate /
   array), so the interpreter is structurally recursive: no fuel, no partiality. *)
From Coq Require Import ZArith List String Bool.
Import ListNotations.
Open Scope Z_scope.

Inductive binop := Add | Sub | Mul.
Inductive cmpop := Lt | Le | Gt | Ge | Eq | Ne.

Inductive expr :=
| EInt (z : Z)
| ENone
| EVar (x : string)
| EBin (o : binop) (a b : expr)
| ECmp (o : cmpop) (a b : expr)
| EIdx (a i : expr)                 (* a[i], negative indices wrap as in Python *)
| ELen (a : expr)                   (* len(a), a.shape[0] *)
| EIsNone (a : expr)                (* a is None *)
| ECall1 (f : string) (a : expr).   (* call of another translated one-argument function *)

Inductive iter :=
| IRange (a b s : expr)             (* range(a, b, s) *)
| IEnum (e : expr)                  (* enumerate(e): two loop variables *)
| IArr (e : expr).                  (* for x in e *)

Inductive stmt :=
| SAssign (x : string) (e : expr)
| SSetIdx (x : string) (i e : expr)           (* x[i] = e *)
| SAllocInt (x : string) (n : expr)           (* x = np.empty(n, dtype=int) *)
| SIf (c : expr) (t f : list stmt)
| SFor (vars : list string) (it : iter) (body orelse : list stmt)
| SReturn (e : expr)
| SBreak
| SPass.

Record func := mkFunc { f_name : string; f_params : list string; f_body : list stmt }.

Section Interp.
  Context {T : Type}.
  Variables (add sub mul : T -> T -> T) (ltb leb eqb : T -> T -> bool) (ofZ : Z -> T).

  Inductive val := VInt (z : Z) | VNum (t : T) | VBool (b : bool) | VNone | VArr (l : list val).

  Definition env := list (string * val).
  Fixpoint get (en : env) (x : string) : option val :=
    match en with
    | [] => None
    | (y, v) :: r => if String.eqb x y then Some v else get r x
    end.
  Definition set (x : string) (v : val) (en : env) : env := (x, v) :: en.

  (* semantic environment of callable one-argument functions *)
  Variable fenv : string -> option (val -> option val).

  Definition num_of (v : val) : option T :=
    match v with VInt z => Some (ofZ z) | VNum t => Some t | _ => None end.

  Definition do_bin (o : binop) (a b : val) : option val :=
    match a, b with
    | VInt x, VInt y => Some (VInt (match o with Add => x + y | Sub => x - y | Mul => x * y end))
    | _, _ => match num_of a, num_of b with
              | Some x, Some y => Some (VNum (match o with Add => add x y | Sub => sub x y | Mul => mul x y end))
              | _, _ => None
              end
    end.

  Definition do_cmp (o : cmpop) (a b : val) : option val :=
    match a, b with
    | VInt x, VInt y => Some (VBool (match o with Lt => x <? y | Le => x <=? y | Gt => y <? x | Ge => y <=? x
                                                | Eq => x =? y | Ne => negb (x =? y) end))
    | _, _ => match num_of a, num_of b with
              | Some x, Some y => Some (VBool (match o with Lt => ltb x y | Le => leb x y | Gt => ltb y x | Ge => leb y x
                                                        | Eq => eqb x y | Ne => negb (eqb x y) end))
              | _, _ => None
              end
    end.

  Definition index (l : list val) (i : Z) : option val :=
    let n := Z.of_nat (List.length l) in
    let j := if i <? 0 then i + n else i in
    if (j <? 0) || (n <=? j) then None else nth_error l (Z.to_nat j).

  Fixpoint replace_nth (l : list val) (k : nat) (v : val) : list val :=
    match l, k with
    | [], _ => []
    | _ :: t, O => v :: t
    | h :: t, S k' => h :: replace_nth t k' v
    end.

  Fixpoint eval (en : env) (e : expr) : option val :=
    match e with
    | EInt z => Some (VInt z)
    | ENone => Some VNone
    | EVar x => get en x
    | EBin o a b => match eval en a, eval en b with Some x, Some y => do_bin o x y | _, _ => None end
    | ECmp o a b => match eval en a, eval en b with Some x, Some y => do_cmp o x y | _, _ => None end
    | EIdx a i => match eval en a, eval en i with Some (VArr l), Some (VInt k) => index l k | _, _ => None end
    | ELen a => match eval en a with Some (VArr l) => Some (VInt (Z.of_nat (List.length l))) | _ => None end
    | EIsNone a => match eval en a with Some VNone => Some (VBool true) | Some _ => Some (VBool false) | None => None end
    | ECall1 f a => match fenv f, eval en a with Some g, Some v => g v | _, _ => None end
    end.

  (* range(a, b, s) as the list of its values *)
  Definition zrange (a b s : Z) : list Z :=
    if s =? 0 then [] else
    let n := if 0 <? s then (b - a + s - 1) / s else (a - b + (- s) - 1) / (- s) in
    map (fun k => a + s * Z.of_nat k) (seq 0 (Z.to_nat n)).

  Fixpoint enum_from (i : Z) (l : list val) : list (list val) :=
    match l with [] => [] | v :: t => [VInt i; v] :: enum_from (i + 1) t end.

  Definition iter_vals (en : env) (it : iter) : option (list (list val)) :=
    match it with
    | IRange a b s => match eval en a, eval en b, eval en s with
                      | Some (VInt x), Some (VInt y), Some (VInt z) => Some (map (fun k => [VInt k]) (zrange x y z))
                      | _, _, _ => None
                      end
    | IEnum e => match eval en e with Some (VArr l) => Some (enum_from 0 l) | _ => None end
    | IArr e => match eval en e with Some (VArr l) => Some (map (fun v => [v]) l) | _ => None end
    end.

  Fixpoint bind (vars : list string) (vs : list val) (en : env) : env :=
    match vars, vs with
    | x :: xs, v :: vs' => bind xs vs' (set x v en)
    | _, _ => en
    end.

  Inductive res := RNorm (en : env) | RBreak (en : env) | RRet (v : val) | RErr.

  Fixpoint exec (s : stmt) (en : env) {struct s} : res :=
    let block := (fix block (l : list stmt) (en : env) {struct l} : res :=
                    match l with
                    | [] => RNorm en
                    | s' :: l' => match exec s' en with RNorm en' => block l' en' | r => r end
                    end) in
    match s with
    | SAssign x e => match eval en e with Some v => RNorm (set x v en) | None => RErr end
    | SSetIdx x i e =>
        match get en x, eval en i, eval en e with
        | Some (VArr l), Some (VInt k), Some v =>
            let n := Z.of_nat (List.length l) in
            let j := if k <? 0 then k + n else k in
            if (j <? 0) || (n <=? j) then RErr else RNorm (set x (VArr (replace_nth l (Z.to_nat j) v)) en)
        | _, _, _ => RErr
        end
    | SAllocInt x n => match eval en n with
                       | Some (VInt k) => if k <? 0 then RErr else RNorm (set x (VArr (repeat VNone (Z.to_nat k))) en)
                       | _ => RErr
                       end
    | SIf c t f => match eval en c with
                   | Some (VBool true) => block t en
                   | Some (VBool false) => block f en
                   | _ => RErr
                   end
    | SFor vars it body orelse =>
        match iter_vals en it with
        | None => RErr
        | Some vss =>
            (fix loop (vss : list (list val)) (en : env) {struct vss} : res :=
               match vss with
               | [] => block orelse en
               | vs :: rest => match block body (bind vars vs en) with
                               | RNorm en' => loop rest en'
                               | RBreak en' => RNorm en'
                               | r => r
                               end
               end) vss en
        end
    | SReturn e => match eval en e with Some v => RRet v | None => RErr end
    | SBreak => RBreak en
    | SPass => RNorm en
    end.

  Fixpoint exec_block (l : list stmt) (en : env) : res :=
    match l with
    | [] => RNorm en
    | s :: l' => match exec s en with RNorm en' => exec_block l' en' | r => r end
    end.

  Definition exec_loop (vars : list string) (body orelse : list stmt) : list (list val) -> env -> res :=
    fix loop (vss : list (list val)) (en : env) {struct vss} : res :=
      match vss with
      | [] => exec_block orelse en
      | vs :: rest => match exec_block body (bind vars vs en) with
                      | RNorm en' => loop rest en'
                      | RBreak en' => RNorm en'
                      | r => r
                      end
      end.

  Lemma exec_loop_nil vars body orelse en : exec_loop vars body orelse [] en = exec_block orelse en.
  Proof. reflexivity. Qed.
  Lemma exec_loop_cons vars body orelse vs rest en :
    exec_loop vars body orelse (vs :: rest) en =
    match exec_block body (bind vars vs en) with
    | RNorm en' => exec_loop vars body orelse rest en'
    | RBreak en' => RNorm en'
    | r => r
    end.
  Proof. reflexivity. Qed.

  (* unfolding equations: the nested fixpoints of [exec] are [exec_block] and [exec_loop] *)
  Lemma block_eq l en :
    (fix block (l : list stmt) (en : env) {struct l} : res :=
       match l with
       | [] => RNorm en
       | s' :: l' => match exec s' en with RNorm en' => block l' en' | r => r end
       end) l en = exec_block l en.
  Proof.
    reflexivity.
  Qed.

  Lemma exec_if c t f en :
    exec (SIf c t f) en = match eval en c with
                          | Some (VBool true) => exec_block t en
                          | Some (VBool false) => exec_block f en
                          | _ => RErr
                          end.
  Proof.
    cbn [exec]. destruct (eval en c) as [[| |[|]| |]|]; try reflexivity.
  Qed.

  Lemma exec_for vars it body orelse en :
    exec (SFor vars it body orelse) en = match iter_vals en it with
                                         | None => RErr
                                         | Some vss => exec_loop vars body orelse vss en
                                         end.
  Proof.
    cbn [exec]. destruct (iter_vals en it) as [vss|]; reflexivity.
  Qed.

  Lemma exec_assign x e en :
    exec (SAssign x e) en = match eval en e with Some v => RNorm (set x v en) | None => RErr end.
  Proof. reflexivity. Qed.
  Lemma exec_return e en : exec (SReturn e) en = match eval en e with Some v => RRet v | None => RErr end.
  Proof. reflexivity. Qed.
  Lemma exec_break en : exec SBreak en = RBreak en.
  Proof. reflexivity. Qed.
  Lemma exec_alloc x n en :
    exec (SAllocInt x n) en = match eval en n with
                              | Some (VInt k) => if k <? 0 then RErr else RNorm (set x (VArr (repeat VNone (Z.to_nat k))) en)
                              | _ => RErr
                              end.
  Proof. reflexivity. Qed.
  Lemma exec_setidx x i e en :
    exec (SSetIdx x i e) en =
    match get en x, eval en i, eval en e with
    | Some (VArr l), Some (VInt k), Some v =>
        let n := Z.of_nat (List.length l) in
        let j := if k <? 0 then k + n else k in
        if (j <? 0) || (n <=? j) then RErr else RNorm (set x (VArr (replace_nth l (Z.to_nat j) v)) en)
    | _, _, _ => RErr
    end.
  Proof. reflexivity. Qed.

  (* a call: positional arguments, falling off the end returns None, a stray break is an error *)
  Definition run (f : func) (args : list val) : option val :=
    if negb (Nat.eqb (List.length args) (List.length (f_params f))) then None else
    match exec_block (f_body f) (bind (f_params f) args []) with
    | RRet v => Some v
    | RNorm _ => Some VNone
    | _ => None
    end.

  Definition run1 (f : func) (v : val) : option val := run f [v].
End Interp.

Arguments VInt {T}. Arguments VNum {T}. Arguments VBool {T}. Arguments VNone {T}. Arguments VArr {T}.
Arguments RNorm {T}. Arguments RBreak {T}. Arguments RRet {T}. Arguments RErr {T}.
