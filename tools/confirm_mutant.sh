#!/bin/bash
# usage: confirm_mutant.sh <worktree> <mutant dir> ; confirms: patch applies, demo passes clean / fails patched, baseline passes patched
WT=$1; M=$2
export PYTHONPATH=$WT:/tmp/ditdeps/pydeps:/tmp/ditdeps/pystubs PYTHONHASHSEED=0 OMP_NUM_THREADS=1 OPENBLAS_NUM_THREADS=1
cd $WT && git checkout -q -- . 
git apply --check $M/patch.diff || { echo "RESULT $M apply-check-failed"; exit 1; }
(cd /tmp && timeout 600 /venv/bin/python $M/demo.py > /tmp/demo_clean.$$ 2>&1); RC_CLEAN=$?
git apply $M/patch.diff
(cd /tmp && timeout 600 /venv/bin/python $M/demo.py > /tmp/demo_patched.$$ 2>&1); RC_PATCHED=$?
/tmp/ditdeps/run_baseline.sh $WT > /tmp/base.$$ 2>&1; RC_BASE=$?
git checkout -q -- .
echo "RESULT $M clean_rc=$RC_CLEAN patched_rc=$RC_PATCHED baseline_rc=$RC_BASE $(tail -1 /tmp/base.$$ | head -c 80)"
rm -f /tmp/demo_clean.$$ /tmp/demo_patched.$$ /tmp/base.$$
