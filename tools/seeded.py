#!/usr/bin/env python3
"""Seeded-defect bookkeeping.
  seeded.py import <PROP> <mutant_dir> <id>  : copy patch.diff/demo.py/README into /verif/seeded/<id>/ with meta.json
  seeded.py run <id> [CHECK ...]             : apply the patch to /repo, run the checks (default: the property's), revert; record result
  seeded.py runall                           : run every seeded defect against its property's check
"""
import json
import os
import shutil
import subprocess
import sys
import time

SEEDED = '/verif/seeded'


def sh(cmd, **kw):
    return subprocess.run(cmd, shell=True, stdout=subprocess.PIPE, stderr=subprocess.STDOUT, text=True, **kw)


def cmd_import(prop, src, mid):
    dst = os.path.join(SEEDED, mid)
    os.makedirs(dst, exist_ok=True)
    for f in ('patch.diff', 'demo.py', 'README.txt'):
        shutil.copy(os.path.join(src, f), os.path.join(dst, f))
    meta = {'id': mid, 'property': prop, 'origin': 'independent sub-agent given only the property text and a scratch worktree',
            'needs': open(os.path.join(src, 'README.txt')).read().strip(), 'confirmed': None, 'runs': []}
    mp = os.path.join(dst, 'meta.json')
    if os.path.exists(mp):
        old = json.load(open(mp))
        meta['confirmed'] = old.get('confirmed')
        meta['runs'] = old.get('runs', [])
    json.dump(meta, open(mp, 'w'), indent=1)


def cmd_run(mid, checks):
    dst = os.path.join(SEEDED, mid)
    meta = json.load(open(os.path.join(dst, 'meta.json')))
    checks = checks or [meta['property']]
    # evidence, replays and work files of runs against a changed /repo are kept apart: evidence/ is only ever
    # written by checks run on the unchanged tree
    os.environ.setdefault('VERIF_SCRATCH', 'seeded')
    assert sh('git -C /repo status --porcelain --untracked-files=no').stdout.strip() == '', '/repo not clean'
    r = sh('git -C /repo apply %s/patch.diff' % dst)
    if r.returncode != 0:
        r = sh('git -C /repo apply -3 %s/patch.diff' % dst)
    if r.returncode != 0:
        print('patch does not apply:', r.stdout)
        return
    results = {}
    try:
        for c in checks:
            t0 = time.time()
            r = sh('cd /verif && ./check %s --tier quick' % c)
            lines = [l for l in r.stdout.splitlines() if l.startswith('VIOLATION') or l.startswith('KNOWN')]
            results[c] = {'exit': r.returncode, 'violation_lines': lines[:3], 'wall_s': round(time.time() - t0, 1)}
            print(mid, c, 'exit', r.returncode, lines[:2])
    finally:
        sh('git -C /repo reset -q')
        sh('git -C /repo checkout -- .')
    label = checks if not os.environ.get('VERIF_SEED') else [c + '@seed' + os.environ['VERIF_SEED'] for c in checks]
    meta['runs'] = [x for x in meta.get('runs', []) if x.get('checks') != label]
    meta['runs'].append({'checks': label, 'results': results, 'caught': any(v['exit'] == 1 for v in results.values()),
                         'repo_head': sh('git -C /repo rev-parse --short HEAD').stdout.strip()})
    json.dump(meta, open(os.path.join(dst, 'meta.json'), 'w'), indent=1)


def main():
    a = sys.argv[1:]
    if a[0] == 'import':
        cmd_import(a[1], a[2], a[3])
    elif a[0] == 'run':
        cmd_run(a[1], a[2:])
    elif a[0] == 'runall':
        for mid in sorted(os.listdir(SEEDED)):
            if os.path.exists(os.path.join(SEEDED, mid, 'meta.json')):
                cmd_run(mid, [])


main()
