#!/usr/bin/env python3
"""Fail-closed translator: selected pure-Python functions of /repo's current source -> terms of the
deep-embedded language of coq/theories/Core/PyLang.v.

  py2coq.py <module.py> <out.v> <ModuleName> fn1 fn2 ...

Statement by statement, no analysis, no optimisation: every supported Python construct has exactly one
constructor of PyLang.  Anything else (an unknown call, a float literal, a keyword argument, a while
loop, an attribute other than .shape[0] ...) raises Unsupported and the caller reports the obligation as
broken.  Docstrings and comments carry no semantics and are dropped.  Trusted: this file (the mapping
below) and CPython's `ast` parser."""
import ast
import sys


class Unsupported(Exception):
    pass


def bad(node, why):
    raise Unsupported('%s at line %s: %s' % (type(node).__name__, getattr(node, 'lineno', '?'), why))


def s(x):
    return '"%s"' % x


BIN = {ast.Add: 'Add', ast.Sub: 'Sub', ast.Mult: 'Mul'}
CMP = {ast.Lt: 'Lt', ast.LtE: 'Le', ast.Gt: 'Gt', ast.GtE: 'Ge', ast.Eq: 'Eq', ast.NotEq: 'Ne'}


def zlit(n):
    return '(%d)' % n


def expr(e, fns):
    if isinstance(e, ast.Constant):
        if e.value is None:
            return 'ENone'
        if isinstance(e.value, bool) or not isinstance(e.value, int):
            bad(e, 'only int and None literals')
        return '(EInt %s)' % zlit(e.value)
    if isinstance(e, ast.UnaryOp) and isinstance(e.op, ast.USub) and isinstance(e.operand, ast.Constant) \
            and type(e.operand.value) is int:
        return '(EInt %s)' % zlit(-e.operand.value)
    if isinstance(e, ast.Name):
        return '(EVar %s)' % s(e.id)
    if isinstance(e, ast.BinOp):
        if type(e.op) not in BIN:
            bad(e, 'operator')
        return '(EBin %s %s %s)' % (BIN[type(e.op)], expr(e.left, fns), expr(e.right, fns))
    if isinstance(e, ast.Compare):
        if len(e.ops) != 1:
            bad(e, 'chained comparison')
        op = e.ops[0]
        if isinstance(op, ast.Is) and isinstance(e.comparators[0], ast.Constant) and e.comparators[0].value is None:
            return '(EIsNone %s)' % expr(e.left, fns)
        if type(op) not in CMP:
            bad(e, 'comparison operator')
        return '(ECmp %s %s %s)' % (CMP[type(op)], expr(e.left, fns), expr(e.comparators[0], fns))
    if isinstance(e, ast.Subscript):
        # x.shape[0]  ->  len(x)
        if isinstance(e.value, ast.Attribute) and e.value.attr == 'shape' and isinstance(e.slice, ast.Constant) \
                and e.slice.value == 0:
            return '(ELen %s)' % expr(e.value.value, fns)
        if isinstance(e.slice, (ast.Slice, ast.Tuple)):
            bad(e, 'slices')
        return '(EIdx %s %s)' % (expr(e.value, fns), expr(e.slice, fns))
    if isinstance(e, ast.Call):
        if e.keywords:
            bad(e, 'keyword arguments')
        if isinstance(e.func, ast.Name) and e.func.id == 'len' and len(e.args) == 1:
            return '(ELen %s)' % expr(e.args[0], fns)
        if isinstance(e.func, ast.Name) and e.func.id in fns and len(e.args) == 1:
            return '(ECall1 %s %s)' % (s(e.func.id), expr(e.args[0], fns))
        bad(e, 'call')
    bad(e, 'expression')


def is_np_empty_int(e):
    """np.empty(<n>, dtype=int)"""
    return (isinstance(e, ast.Call) and isinstance(e.func, ast.Attribute) and e.func.attr == 'empty'
            and isinstance(e.func.value, ast.Name) and e.func.value.id == 'np' and len(e.args) == 1
            and len(e.keywords) == 1 and e.keywords[0].arg == 'dtype'
            and isinstance(e.keywords[0].value, ast.Name) and e.keywords[0].value.id == 'int')


def block(stmts, fns):
    out = []
    for st in stmts:
        if isinstance(st, ast.Expr) and isinstance(st.value, ast.Constant) and isinstance(st.value.value, str):
            continue                                             # docstring
        out.append(stmt(st, fns))
    return '[' + '; '.join(out) + ']'


def iterator(it, fns):
    if isinstance(it, ast.Call) and isinstance(it.func, ast.Name) and not it.keywords:
        if it.func.id == 'range' and 1 <= len(it.args) <= 3:
            a = [expr(x, fns) for x in it.args]
            if len(a) == 1:
                a = ['(EInt (0))'] + a
            if len(a) == 2:
                a = a + ['(EInt (1))']
            return '(IRange %s %s %s)' % tuple(a)
        if it.func.id == 'enumerate' and len(it.args) == 1:
            return '(IEnum %s)' % expr(it.args[0], fns)
        bad(it, 'iterator call')
    if isinstance(it, ast.Name):
        return '(IArr %s)' % expr(it, fns)
    bad(it, 'iterator')


def stmt(st, fns):
    if isinstance(st, ast.Assign):
        if len(st.targets) != 1:
            bad(st, 'multiple targets')
        t = st.targets[0]
        if isinstance(t, ast.Name):
            if is_np_empty_int(st.value):
                return '(SAllocInt %s %s)' % (s(t.id), expr(st.value.args[0], fns))
            return '(SAssign %s %s)' % (s(t.id), expr(st.value, fns))
        if isinstance(t, ast.Subscript) and isinstance(t.value, ast.Name) and not isinstance(t.slice, (ast.Slice, ast.Tuple)):
            return '(SSetIdx %s %s %s)' % (s(t.value.id), expr(t.slice, fns), expr(st.value, fns))
        bad(st, 'assignment target')
    if isinstance(st, ast.AugAssign):
        if not isinstance(st.target, ast.Name) or type(st.op) not in BIN:
            bad(st, 'augmented assignment')
        # x op= e  is  x = x op e  for the immutable scalars this fragment binds to names
        return '(SAssign %s (EBin %s (EVar %s) %s))' % (s(st.target.id), BIN[type(st.op)], s(st.target.id), expr(st.value, fns))
    if isinstance(st, ast.If):
        return '(SIf %s %s %s)' % (expr(st.test, fns), block(st.body, fns), block(st.orelse, fns))
    if isinstance(st, ast.For):
        if isinstance(st.target, ast.Name):
            vs = [st.target.id]
        elif isinstance(st.target, ast.Tuple) and all(isinstance(x, ast.Name) for x in st.target.elts):
            vs = [x.id for x in st.target.elts]
        else:
            bad(st, 'loop target')
        it = iterator(st.iter, fns)
        if it.startswith('(IEnum') != (len(vs) == 2):
            bad(st, 'loop target arity')
        return '(SFor [%s] %s %s %s)' % ('; '.join(s(v) for v in vs), it, block(st.body, fns), block(st.orelse, fns))
    if isinstance(st, ast.Return):
        return '(SReturn %s)' % (expr(st.value, fns) if st.value is not None else 'ENone')
    if isinstance(st, ast.Break):
        return 'SBreak'
    if isinstance(st, ast.Pass):
        return 'SPass'
    bad(st, 'statement')


def function(fd, fns):
    a = fd.args
    if a.vararg or a.kwarg or a.kwonlyargs or a.posonlyargs:
        bad(fd, 'parameter kinds')
    for d in a.defaults:
        if not (isinstance(d, ast.Constant) and d.value is None):
            bad(fd, 'only None defaults')
    if fd.decorator_list:
        bad(fd, 'decorators')
    params = [x.arg for x in a.args]
    return '(mkFunc %s [%s] %s)' % (s(fd.name), '; '.join(s(p) for p in params), block(fd.body, fns))


def translate(path, modname, names):
    tree = ast.parse(open(path).read(), path)
    defs = {n.name: n for n in tree.body if isinstance(n, ast.FunctionDef)}
    lines = ['(* GENERATED by tools/py2coq.py from %s -- do not edit; regenerated on every run *)' % path,
             'From Coq Require Import ZArith List String.', 'From Verif Require Import PyLang.',
             'Import ListNotations.', 'Open Scope string_scope.', 'Open Scope Z_scope.', '']
    for n in names:
        if n not in defs:
            raise Unsupported('function %s not found in %s' % (n, path))
        lines.append('Definition %s_%s : func :=\n  %s.\n' % (modname, n.strip('_').replace('__', '_'), function(defs[n], set(names))))
    return '\n'.join(lines)


if __name__ == '__main__':
    src, out, modname = sys.argv[1:4]
    try:
        text = translate(src, modname, sys.argv[4:])
    except (Unsupported, SyntaxError) as e:
        print('UNSUPPORTED: %s' % e)
        sys.exit(2)
    try:
        old = open(out).read()
    except OSError:
        old = None
    if old != text:
        open(out, 'w').write(text)
        print('regenerated %s' % out)
    else:
        print('unchanged %s' % out)
