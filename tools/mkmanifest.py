#!/usr/bin/env python3
"""Regenerates /verif/MANIFEST.json from the table below (kept here so that the file stays valid)."""
import json

COMMON_NOTE = ("Trusted: Coq 8.16.1 kernel incl. vm_compute (no native_compute, no extraction); the Python driver "
               "(rank encoding of symbols, exact float->Q conversion, base**x linearisation of log values); the "
               "hand-written Gallina model, whose agreement with dit is sampled by the correspondence run, not proved. ")
TECH = "machine-checked proof in Coq of a hand-written executable model + differential correspondence (vm_compute) + property predicate on dit's output"

CLAIMED = {
 'C01': ("Coq theorems (unbounded, axiom-free) about the executable model of both constructors: every specified outcome reads back exactly (or 0 when null+trimmed), unspecified members read null, outsiders are rejected, the stored table is duplicate-free/ordered like the sample space/complete when dense/null-free when trimmed, and each fault kind yields its documented exception; tie to /repo: model and dit are run on the same generated specifications (valid and malformed streams) and compared exactly, and the property predicate is evaluated on dit's own result.",
         COMMON_NOTE + "Validation thresholds of log bases are three-valued inside a band around dit's tolerance."),
 'C02': ("Coq theorems (unbounded, axiom-free) that the executable model of coalesce/marginal/marginalize returns fibre sums, preserves mass, composes in stages, keeps base/sparsity/names and yields a well-formed table over the projected sample space; tie to /repo: correspondence run on generated cases plus an independent property predicate evaluated on dit's own output.",
         COMMON_NOTE + "Float sums within 1e-9."),
}
PLANNED = {}
ALL = ['C%02d' % i for i in range(1, 21)]


def main():
    checks = []
    for pid in ALL:
        if pid not in CLAIMED:
            continue
        text, note = CLAIMED[pid]
        checks.append({
            "property_id": pid, "quick_cmd": "./check %s --tier quick" % pid,
            "thorough_cmd": "./check %s --tier thorough" % pid,
            "evidence_file": "/verif/evidence/%s.json" % pid,
            "replay_cmd_template": "./check %s --replay {path}" % pid,
            "engine": "coq-model+correspondence",
            "level_claimed": {"category": "proof", "text": text, "design_ref": "DESIGN.md section 4, %s" % pid},
            "level_note": note, "technique": TECH})
    m = {"version": 1, "setup_cmd": "bash /verif/setup.sh",
         "hooks": {"guard": "DIT_VERIF",
                   "enable": "no source hooks are needed (all observables are public API); checks export DIT_VERIF=1 for uniformity",
                   "baseline_off_cmd": "cd /repo && /venv/bin/python -m pytest -ra -q -p no:cacheprovider --timeout=900 --continue-on-collection-errors",
                   "source_commits": [], "add_only": True},
         "engines": [{"name": "coq-model+correspondence", "path": "/verif/check",
                      "serves_properties": sorted(CLAIMED),
                      "kind_free_text": "Coq 8.16 development (coq/theories: Core, Model, Proofs, Props) + Python differential driver (harness/)"}],
         "checks": checks,
         "notes": "See DESIGN.md. /repo carries 'fix:' commits for genuine defects; they are listed in known_findings.json.",
         "not_applicable": [{"property_id": p, "reason": PLANNED.get(p, "not built yet in this round; plan in DESIGN.md section 4")}
                            for p in ALL if p not in CLAIMED]}
    json.dump(m, open('/verif/MANIFEST.json', 'w'), indent=1)


main()
