#!/usr/bin/env python3
"""Regenerates /verif/MANIFEST.json from the table below (kept here so that the file stays valid)."""
import json

COMMON_NOTE = ("Trusted: Coq 8.16.1 kernel incl. vm_compute (no native_compute, no extraction); the Python driver "
               "(rank encoding of symbols, exact float->Q conversion, base**x linearisation of log values); the "
               "hand-written Gallina model, whose agreement with dit is sampled by the correspondence run, not proved. ")
TECH = "machine-checked proof in Coq of a hand-written executable model + differential correspondence (vm_compute) + property predicate on dit's output"

CLAIMED = {
 'C01': ("Coq theorems (unbounded, axiom-free) about the executable model of both constructors: every specified outcome reads back exactly (or 0 when null+trimmed), unspecified members read null, outsiders are rejected, the stored table is duplicate-free/ordered like the sample space/complete when dense/null-free when trimmed, and each fault kind yields its documented exception; tie to /repo: model and dit are run on the same generated specifications (valid and malformed streams) and compared exactly, and the property predicate is evaluated on dit's own result.",
         COMMON_NOTE + "Validation thresholds of log bases are three-valued inside a band around dit's tolerance."),
 'C02': ("Coq theorems (unbounded, axiom-free) that the executable model of coalesce/marginal/marginalize returns fibre sums, preserves mass, composes in stages, keeps base/sparsity/names and yields a well-formed table over the projected sample space; tie to /repo: correspondence run on generated cases plus an independent property predicate evaluated on dit's own output.",
         COMMON_NOTE + "Float sums within 1e-9."),
}
CLAIMED['C03'] = ("Coq theorems (axiom-free) about the executable model of condition_on / joint_from_factors: selections must be valid and disjoint, one conditional per stored (non-null) conditioning value in order, the chain rule pc*v = joint for every outcome of every conditional (or trimmed null), unstored outcomes read 0, every recombined entry equals the joint value; tie to /repo: correspondence on generated cases (linear and log bases, named, sparse/dense, rvs=None) incl. joint_from_factors, plus the chain-rule/normalisation/recombination predicate evaluated on dit's own output.",
         COMMON_NOTE + "Float rounding of p(c,r)/p(c) within 1e-9; row normalisation is checked on dit's output per case, not proved for the model.")
CLAIMED['C09'] = ("Coq theorems (axiom-free): an invariant (stored outcomes duplicate-free, inside and ordered like the sample space, complete when dense) holds in every reachable state of the mutation machine by induction over arbitrary histories; the concrete machine (aligned lists re-sorted on insertion, as dit does) refines a plain table indexed by the sample space; illegal operations are no-ops; frame (other objects untouched); a copy equals its source incl. generator state; static data never change. Tie to /repo: after every step of generated histories every live object of dit is compared with the concrete machine and, independently, with the abstract table.",
         COMMON_NOTE + "normalize/base changes within 1e-9 relative; validate() verdicts three-valued near tolerances; generator identity observed through a shadow RandomState.")
CLAIMED['C12'] = ("Coq theorems (axiom-free) over Q: the scan returns exactly the index whose cumulative interval contains u (soundness and uniqueness), never a zero-probability outcome, every positive outcome is reached by some u in [0,1), totality below the mass, and the repaired fall-back returns the last positive outcome; generator draws compose. Tie to /repo: a binary64 (PrimFloat) mirror of the sequential scan is evaluated by vm_compute and must agree bit-for-bit with dit on endpoint, neighbour-float and generator-drawn random numbers; the exact-rational interval predicate is evaluated on dit's output.",
         COMMON_NOTE + "The PrimFloat instance of the scan is executed, not proved to satisfy the ordered-field laws used by the Q theorems; NumPy RandomState is the oracle for generator streams.")
REAL_NOTE = ("Real-valued theorems and goals rest on the Coq stdlib Reals axioms (ClassicalDedekindReals.sig_not_dec, sig_forall_dec, FunctionalExtensionality.functional_extensionality_dep, Classical_Prop.classic); values are compared by Coq-Interval 4.6.1 (reflexive interval arithmetic over Flocq, checked by the kernel with vm_compute), tolerance 1e-9. ")
CLAIMED['C04'] = ("Coq theorems: Shannon entropy of any pmf is in [0, log2 |support|], zero when deterministic, insensitive to zero padding and permutation (Gibbs' inequality proved from ln x <= x-1); conditional entropy / MI are the stated entropy differences and MI is symmetric for any entropy function; on every finite table with positive weights MI and conditional entropy are non-negative and entropy depends only on which variables are addressed; Renyi/Tsallis take the Shannon branch at order 1. Tie to /repo: each generated query (Shannon, conditional, MI, multivariate entropy, Renyi/Tsallis of orders 0..inf, extropy, perplexity; subsets incl. empty/overlapping/invalid, by index or name) is one interval-arithmetic goal |model - dit| <= 1e-9 decided inside Coq (OK / provably different / inconclusive).",
         COMMON_NOTE + REAL_NOTE + "Only linear distributions (log bases are C07).")
CLAIMED['C05'] = ("Coq theorems: each multivariate measure evaluates to its defining combination of conditional entropies for any entropy function; for two groups co-information, total correlation, dual total correlation and CAEKL all equal I(X:Y|Z); on every finite table with positive weights I(X:Y|Z) >= 0 (full proof via Gibbs + a combinatorial mass bound), total correlation >= 0, dual total correlation >= 0 for disjoint groups, every CAEKL candidate >= 0; the model value on a clean distribution equals the joint-table entropy combination. Tie to /repo: each generated query (9 measures, arbitrary groupings, conditioning, names, cohesion k, CAEKL with per-partition lower-bound goals and a hinted minimiser) is an interval-arithmetic goal against dit's value.",
         COMMON_NOTE + REAL_NOTE + "TSE and cohesion are covered by correspondence only (their defining sums are transcribed, no separate theorem).")
CLAIMED['C07'] = ("Coq theorems over the reals, for every base b>0, b<>1 (incl. 0<b<1): b^(add x y) = b^x + b^y, b^(x+y) = b^x b^y, b^(-x) = 1/b^x, add_reduce and normalize render to sum and to a unit-mass vector, set_base between any two log bases and the linear<->log round trip preserve the rendered value, and dit's log-branch entropy -sum b^x x equals the entropy in bits times ln2/ln b. Tie to /repo: interval-arithmetic goals for (i) every element of LogOperations results on random log arrays incl. the null value, (ii) every stored value, lookup, copypmf array and event probability after random chains of set_base/copy/copypmf, (iii) Shannon-type measures of log-base distributions against the linear model in base-b units. Structural operations on log distributions are additionally exercised by the C02/C03/C09 generators.",
         COMMON_NOTE + REAL_NOTE + "Null log values (-inf, or +inf for b<1) are mapped to probability 0 by the driver; sampling of log distributions is covered by C12.")
CLAIMED['C19'] = ("Coq theorems (axiom-free): sliding windows number len-L+1, have length L and start at successive positions; counts add up to the number of windows and each count is the number of occurrences; distribution_from_data assigns count/#windows to each occurring word, its keys are exactly the occurring words without duplicates and its mass is 1; the time-series regrouping has the stated shape; binning checks imply every sample gets a label in range. Tie to /repo: boolean model+property checks evaluated by vm_compute for distribution_from_data, dist_from_timeseries, counts_from_data and binned(), and interval goals for entropy_0/1/2.",
         COMMON_NOTE + REAL_NOTE + "Mathematical fact used, not proved: digamma(n) = H_{n-1} - gamma at positive integers. At a bin edge (within 1e-9) either neighbouring label is accepted.")
CLAIMED['C06'] = ("Coq theorems on label-aligned pair lists: KL >= 0 (Gibbs), KL(p,p)=0, KL infinite iff some p>0 meets q=0; variational distance symmetric, in [0,1], 0 on (p,p), order-independent; Bhattacharyya coefficient symmetric, in [0,1] (AM-GM), order-independent, hence squared Hellinger in [0,1]; earth mover's distance weak duality (axiom-free) so that the dual bound recomputed in Coq and the cost of an explicit coupling bracket the optimum. Tie to /repo: per-query goals for cross entropy, KL (rvs/crvs), JSD with weights, variational, Bhattacharyya, Hellinger, Renyi/Tsallis/Hellinger/alpha divergences, chi-squared f-divergence, Chernoff, EMD (exact rational certificate), maximum correlation (exact rational characteristic-polynomial check), incl. infinite/nan/rejected kinds, (p,p) and swapped arguments.",
         COMMON_NOTE + REAL_NOTE + "Pinsker, JSD<=H(w) are checked per instance only; Chernoff is checked at the reported optimum and on a grid (1e-4); maximum correlation beyond 3 rows is only bounded; lautum information is not covered. Known finding: f_divergence drops outcomes with q=0<p.")
CLAIMED['C11'] = ("Coq theorems (axiom-free) over integer-outcome tables: pushforward law and mass for modify_outcomes, insert_rvf preserves the joint law of the old variables and the mass, product tables multiply marginals, mixtures are the stated convex combination outcome by outcome, op(X,Y) for independent scalar X,Y has the law sum over pairs with op x y = z (and @ the independent joint), uniform tables have mass 1, E[X+Y]=E[X]+E[Y]. Tie to /repo: to_dict() of each constructor/operator result (modify, insert_rvf, product, mixtures, 11 scalar operators, @, uniform*, noisy, erasure, pruned/expanded sample spaces, giant_bit, n_mod_m, dice sums, logic gates, binomial, hypergeometric, bernoulli, numeric uniform) compared with the model table as a dictionary, statistics by exact rational or interval goals, in linear and log bases.",
         COMMON_NOTE + "Outcomes are integers / digit strings (encoded by value). Example constructors have executable closed-form models but no separate theorems.")
PLANNED = {}
ALL = ['C%02d' % i for i in range(1, 21)]


def main():
    checks = []
    for pid in ALL:
        if pid not in CLAIMED:
            continue
        text, note = CLAIMED[pid]
        checks.append({
            "property_id": pid, "quick_cmd": "./check %s --tier quick" % pid,
            "thorough_cmd": "./check %s --tier thorough" % pid,
            "evidence_file": "/verif/evidence/%s.json" % pid,
            "replay_cmd_template": "./check %s --replay {path}" % pid,
            "engine": "coq-model+correspondence",
            "level_claimed": {"category": "proof", "text": text, "design_ref": "DESIGN.md section 4, %s" % pid},
            "level_note": note, "technique": TECH})
    m = {"version": 1, "setup_cmd": "bash /verif/setup.sh",
         "hooks": {"guard": "DIT_VERIF",
                   "enable": "no source hooks are needed (all observables are public API); checks export DIT_VERIF=1 for uniformity",
                   "baseline_off_cmd": "cd /repo && /venv/bin/python -m pytest -ra -q -p no:cacheprovider --timeout=900 --continue-on-collection-errors",
                   "source_commits": [], "add_only": True},
         "engines": [{"name": "coq-model+correspondence", "path": "/verif/check",
                      "serves_properties": sorted(CLAIMED),
                      "kind_free_text": "Coq 8.16 development (coq/theories: Core, Model, Proofs, Props) + Python differential driver (harness/)"}],
         "checks": checks,
         "notes": "See DESIGN.md. /repo carries 'fix:' commits for genuine defects; they are listed in known_findings.json.",
         "not_applicable": [{"property_id": p, "reason": PLANNED.get(p, "not built yet in this round; plan in DESIGN.md section 4")}
                            for p in ALL if p not in CLAIMED]}
    json.dump(m, open('/verif/MANIFEST.json', 'w'), indent=1)


main()
