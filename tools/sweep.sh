#!/bin/bash
# usage: sweep.sh "<seeds>" "<ids>"   — runs the quick checks with other seeds into a scratch area; prints one line per run
cd /verif
for seed in $1; do
  for id in $2; do
    out=$(VERIF_SCRATCH=sweep-$id-$seed VERIF_SEED=$seed ./check $id --tier quick 2>&1 | grep -v "^KNOWN\|WARNING" | tail -3 | tr '\n' ' ')
    echo "seed=$seed $id :: $out"
  done
done
