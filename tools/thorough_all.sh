#!/bin/bash
# runs every thorough check into a scratch area (evidence of the quick tier stays in place); one line per property
cd /verif
for id in ${1:-C01 C02 C03 C04 C05 C06 C07 C08 C09 C10 C11 C12 C13 C14 C15 C16 C17 C18 C19 C20}; do
  s=$(date +%s)
  out=$(VERIF_SCRATCH=thorough-$id ./check $id --tier thorough 2>&1 | grep -v "^KNOWN\|WARNING" | tail -4 | tr '\n' ' ')
  echo "$id ($(( $(date +%s) - s ))s) :: $out"
done
