#!/usr/bin/env python3
"""Record in seeded/<id>_m3/meta.json what was confirmed for the round-3 seeded changes (scratch logs under /tmp/ditdeps)."""
import json, os, re
DEMO = {p: (0, 1) for p in ['C02', 'C03', 'C04', 'C05', 'C06', 'C09', 'C11', 'C16', 'C18', 'C19']}   # (clean rc, patched rc) run by me
for p in DEMO:
    mp = '/verif/seeded/%s_m3/meta.json' % p
    if not os.path.exists(mp):
        continue
    m = json.load(open(mp))
    conf = {'demo_clean_rc': DEMO[p][0], 'demo_patched_rc': DEMO[p][1], 'demo_run_by': 'main session, against /repo (clean) and the patched scratch worktree',
            'baseline_patched': 'sub-agent reported 236/236 stable tests pass; main session re-run still in progress when recorded'}
    log = '/tmp/ditdeps/confirm_%s.log' % p
    if os.path.exists(log):
        r = re.search(r'RESULT \S+ clean_rc=(\d+) patched_rc=(\d+) baseline_rc=(\d+) (.*)', open(log).read())
        if r:
            conf['baseline_patched'] = 'main session (tools/confirm_mutant.sh): baseline_rc=%s %s' % (r.group(3), r.group(4).strip())
    m['confirmed'] = conf
    json.dump(m, open(mp, 'w'), indent=1)
    print(p, conf['baseline_patched'][:70])
