#!/bin/bash
# Offline setup: third-party stand-ins for dit, and a full .vo build of the Coq development.
set -e
cd /verif
if [ ! -d pydeps/networkx ]; then
  mkdir -p pydeps
  /venv/bin/pip install -q --no-index --find-links /opt/veriftools/wheels --target pydeps networkx
fi
# gate: no axioms / admits / disabled checks anywhere in the development
if grep -rnE 'Admitted|admit\.|^\s*Axiom |^\s*Parameter |^\s*Conjecture |Unset Guard|bypass_check|type-in-type|Admit Obligations' coq/theories --include=*.v; then
  echo "forbidden construct in the Coq development" >&2
  exit 1
fi
python3 -c "import sys; sys.path.insert(0, '/verif'); from harness import lib; print(lib.regen())"
cd coq
coq_makefile -f _CoqProject -o Makefile > /dev/null
timeout 3000 make -j16 > build.log 2>&1 || { tail -30 build.log; exit 1; }
echo "setup ok"
